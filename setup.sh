#!/bin/bash
# Build the overlay venv used by every check: /venv's python + /venv's site-packages
# (dulwich's own dependencies) + crosshair/z3/cvc5 from the offline wheelhouse.
set -e
cd "$(dirname "$0")"
V=/verif/.venv
if [ ! -x $V/bin/crosshair ] || ! $V/bin/python -c "import crosshair, z3" 2>/dev/null; then
  rm -rf $V
  /venv/bin/python -m venv $V
  SP=$($V/bin/python -c "import sysconfig; print(sysconfig.get_paths()['purelib'])")
  echo "import site; site.addsitedir('/venv/lib/python3.12/site-packages')" > $SP/_verif_overlay.pth
  PIP_NO_INDEX=1 $V/bin/pip install -q --no-index --find-links /opt/veriftools/wheels crosshair-tool z3-solver cvc5 >/dev/null
fi
$V/bin/python -c "import crosshair, z3, dulwich; print('venv ok', z3.get_version_string())"
