"""C02 — pack and pack-index round trip (bounded symbolic checks of the real kernels)."""
from __future__ import annotations

from vf.common import KCheck
from vf.ksym.core import And, Or, Not, Implies
from vf.ksym.sbytes import _out, elems_of

import dulwich.pack as P
from dulwich.object_format import DEFAULT_OBJECT_FORMAT

PROPERTY = "C02"


def _reader(data):
    """read(n) callable over a (possibly symbolic) byte string, like a file"""
    e = elems_of(data)
    pos = [0]

    def read(n):
        r = e[pos[0]:pos[0] + n]
        pos[0] += len(r)
        return _out(r)
    return read, pos


def ref_git_header(type_num, size):
    """git's pack object header (pack-write.c encode_in_pack_object_header), concrete ints"""
    out = []
    c = (type_num << 4) | (size & 15)
    size >>= 4
    while size:
        out.append(c | 0x80)
        c = size & 0x7F
        size >>= 7
    out.append(c)
    return out


def ref_git_ofs(ofs):
    """git's OFS_DELTA offset encoding (builtin/pack-objects.c write_no_reuse_object)"""
    out = [ofs & 127]
    ofs >>= 7
    while ofs:
        ofs -= 1
        out.insert(0, 128 | (ofs & 127))
        ofs >>= 7
    return out


def h_header_roundtrip(eng):
    """pack_object_header -> take_msb_bytes -> _decode_object_header is the identity and the
    header has the canonical (minimal) length git produces"""
    t = eng.int("type", 1, 7)
    eng.assume(And(t != 5, t != 6, t != 7))
    size = eng.int("size", 0, 2**63 - 1)
    hdr = P.pack_object_header(t, None, size, DEFAULT_OBJECT_FORMAT)
    read, pos = _reader(hdr)
    raw, _ = P.take_msb_bytes(read)
    t2, s2 = P._decode_object_header(raw)
    eng.observe("decoded", [t2, s2])
    eng.prove(And(t2 == t, s2 == size), "decode(encode(type,size)) == (type,size)")
    eng.prove(pos[0] == len(hdr), "header consumed exactly")
    # canonical length: 1 byte holds 4 bits, every further byte 7
    n = len(hdr)
    eng.prove(And(size < (1 << (4 + 7 * (n - 1))), True if n == 1 else size >= (1 << (4 + 7 * (n - 2)))),
              "header length is git's minimal length")
    for i, b in enumerate(elems_of(hdr)):
        eng.prove((b & 0x80 != 0) == (i < n - 1), "continuation bits")


def h_ofs_roundtrip(eng):
    """OFS_DELTA header: type/size/offset all decode back; offset varint is git's biased encoding"""
    size = eng.int("size", 0, 2**63 - 1)
    ofs = eng.int("ofs", 1, 2**63 - 1)
    hdr = P.pack_object_header(P.OFS_DELTA, ofs, size, DEFAULT_OBJECT_FORMAT)
    read, pos = _reader(hdr)
    raw, _ = P.take_msb_bytes(read)
    t2, s2 = P._decode_object_header(raw)
    raw2, _ = P.take_msb_bytes(read)
    ofs2 = P._decode_delta_base_offset(raw2)
    eng.observe("decoded", [t2, s2, ofs2])
    eng.prove(And(t2 == P.OFS_DELTA, s2 == size, ofs2 == ofs), "decode(encode(OFS,size,ofs)) identity")
    eng.prove(pos[0] == len(hdr), "header consumed exactly")
    # byte-exact agreement with git's encoder: decode raw2 with the reference *decoder* of git
    # (unpack-objects.c: base = c&127; while c&128: base+=1; base = (base<<7)+(c&127))
    k = len(raw2)
    # minimal length: value range of a k-byte biased varint is [B(k-1), B(k)) with B(k)=sum_{i<=k}128^i - ...
    lo = sum(128 ** i for i in range(1, k))
    hi = sum(128 ** i for i in range(1, k + 1))
    eng.prove(And(ofs >= lo, ofs < hi), "offset varint has git's canonical length")


def h_ofs_decode_total(eng, n=3):
    """_decode_delta_base_offset on every msb-terminated byte list of length n: never returns <= 0,
    raises only ApplyDeltaError, and re-encoding gives the same bytes (bijection with git's format)"""
    data = eng.bytes("raw", n)
    raw = list(data)
    for i, b in enumerate(raw):
        eng.assume((b & 0x80 != 0) == (i < n - 1))
    try:
        ofs = P._decode_delta_base_offset(raw)
    except P.ApplyDeltaError:
        eng.prove(And(*[(b & 0x7F) == 0 for b in raw]) if n == 1 else False, "only offset 0 is refused")
        return
    eng.observe("ofs", ofs)
    eng.prove(ofs > 0, "decoded base offset is positive")
    hdr = P.pack_object_header(P.OFS_DELTA, ofs, 0, DEFAULT_OBJECT_FORMAT)
    eng.prove(hdr[1:] == data, "re-encoding reproduces the bytes")


def h_take_msb_at(eng, n=4):
    """take_msb_bytes_at agrees with take_msb_bytes on every buffer and reports the right end offset"""
    data = eng.bytes("buf", n)
    off = eng.choice("off", n + 1)
    read, pos = _reader(data[off:])
    try:
        a, _ = P.take_msb_bytes(read)
        ea = None
    except (TypeError, AssertionError) as e:  # stream exhausted
        ea = e
    try:
        b, end, _ = P.take_msb_bytes_at(data, off)
        eb = None
    except AssertionError as e:
        eb = e
    eng.prove((ea is None) == (eb is None), "both succeed or both hit the end of data")
    if ea is None:
        eng.prove(len(a) == len(b) and And(*[x == y for x, y in zip(a, b)]), "same bytes")
        eng.prove(end == off + len(a), "end offset")


def h_bisect(eng, k=4):
    """bisect_find_sha on a sorted table of k one-byte-distinguished names: returns i with
    table[i]==sha iff present"""
    keys = [eng.byte(f"k{i}") for i in range(k)]
    for i in range(k - 1):
        eng.assume(keys[i] < keys[i + 1])
    probe = eng.byte("probe")
    pad = b"\x11" * 3
    table = [_out([x]) + pad for x in keys]
    sha = _out([probe]) + pad
    r = P.bisect_find_sha(0, k - 1, sha, lambda i: table[i])
    present = Or(*[x == probe for x in keys])
    if r is None:
        eng.prove(Not(present), "None only if absent")
    else:
        eng.prove(keys[r] == probe, "index points at the probe")
    eng.observe("r", r)


def checks(tier):
    q = ("quick", "thorough")
    return [
        KCheck("C02a.header_roundtrip", h_header_roundtrip,
               encoded=["dulwich.pack.pack_object_header", "dulwich.pack.take_msb_bytes",
                        "dulwich.pack._decode_object_header"],
               bounds="type in {1,2,3,4}; every size in [0, 2^63); loop unwinding <= 10 header bytes (derived: 4+7*9 >= 63 bits)",
               outside="sizes >= 2^63",
               pins=[(0, {"type": 3, "size": 0}), (0, {"type": 1, "size": 15}), (0, {"type": 2, "size": 16}),
                     (0, {"type": 4, "size": 2**40 + 12345})], tiers=q),
        KCheck("C02a.ofs_roundtrip", h_ofs_roundtrip,
               encoded=["dulwich.pack.pack_object_header", "dulwich.pack.take_msb_bytes",
                        "dulwich.pack._decode_object_header", "dulwich.pack._decode_delta_base_offset"],
               bounds="size in [0,2^63), ofs in [1,2^63); <= 10 bytes each",
               outside="offsets >= 2^63",
               pins=[(0, {"size": 1, "ofs": 1}), (0, {"size": 300, "ofs": 128}), (0, {"size": 5, "ofs": 16511}),
                     (0, {"size": 5, "ofs": 16512}), (0, {"size": 77, "ofs": 2**33 + 1})], tiers=q),
        KCheck("C02a.ofs_decode_total", h_ofs_decode_total, parts=[{"n": n} for n in (1, 2, 3, 4)],
               encoded=["dulwich.pack._decode_delta_base_offset", "dulwich.pack.pack_object_header"],
               bounds="every msb-terminated byte list of length 1..4", outside="longer offset varints",
               pins=[(0, {"raw": [0]}), (1, {"raw": [0x80, 0]}), (2, {"raw": [0xff, 0x80, 0x7f]})], tiers=q),
        KCheck("C02a.take_msb_at", h_take_msb_at, parts=[{"n": n} for n in (1, 2, 3, 4)],
               encoded=["dulwich.pack.take_msb_bytes", "dulwich.pack.take_msb_bytes_at"],
               bounds="every buffer of 1..4 bytes and every start offset", outside="longer buffers",
               pins=[(1, {"buf": [0x80, 1], "off": 0}), (2, {"buf": [0x80, 0x80, 0x80], "off": 1})], tiers=q),
        KCheck("C02d.bisect", h_bisect, parts=[{"k": k} for k in (1, 2, 3, 4, 5)],
               encoded=["dulwich.pack.bisect_find_sha"],
               bounds="sorted tables of 1..5 names distinguished by their first byte (any 5 of 256 values), any probe",
               outside="tables > 5 entries; names differing only in later bytes",
               pins=[(2, {"k0": 1, "k1": 5, "k2": 9, "probe": 5}), (2, {"k0": 1, "k1": 5, "k2": 9, "probe": 6})],
               tiers=q),
    ]


# ---------------------------------------------------------------------------------------------
# (c) pack index writers/readers with symbolic offsets, checksums and fan-out bytes
_b02 = checks


class _NoFile:
    closed = True

    def close(self):
        pass


def h_index_roundtrip(eng, version=2, k=2):
    """write_pack_index_v{1,2,3} -> PackIndex{1,2,3}: every written name maps back to its offset and crc; an absent name
    is a KeyError; iteration returns the entries in order; fan-out is monotone and ends at k"""
    from vf.ksym.sbytes import SymBytesIO
    import io
    FB = [0x00, 0x7F, 0x80, 0xFE, 0xFF]                      # fan-out boundary bytes (solver-forked choice)
    firsts = [FB[eng.choice(f"first{i}", len(FB))] for i in range(k)]
    eng.assume(all(firsts[i] < firsts[i + 1] for i in range(k - 1)))
    tail = b"\x22" * 19
    names = [bytes([b]) + tail for b in firsts]
    offs = [eng.int(f"offset{i}", 0, 2 ** 63 - 1) for i in range(k)]
    crcs = [eng.int(f"crc{i}", 0, 2 ** 32 - 1) for i in range(k)]
    entries = list(zip(names, offs, crcs))
    f = io.BytesIO() if eng.mode == "concrete" else SymBytesIO()
    csum = b"\x11" * 20
    try:
        if version == 1:
            P.write_pack_index_v1(f, entries, csum)
        elif version == 2:
            P.write_pack_index_v2(f, entries, csum)
        else:
            P.write_pack_index_v3(f, entries, csum)
    except TypeError:
        eng.prove(And(version == 1, Or(*[o > 0xFFFFFFFF for o in offs])), "only v1 refuses, and only offsets beyond 32 bits")
        return
    data = f.getvalue()
    cls = {1: P.PackIndex1, 2: P.PackIndex2, 3: P.PackIndex3}[version]
    idx = cls("mem.idx", DEFAULT_OBJECT_FORMAT, file=_NoFile(), contents=data, size=len(data))
    eng.prove(len(idx) == k, "entry count")
    for nm, off, crc in entries:
        eng.prove(idx.object_offset(nm) == off, f"v{version}: a written name maps back to its pack offset")
    got = list(idx.iterentries())
    eng.prove(len(got) == k, "iteration yields every entry")
    for (n1, o1, c1), (n2, o2, c2) in zip(got, entries):
        eng.prove(And(n1 == n2, o1 == o2), f"v{version}: iteration returns names and offsets in order")
        if version >= 2:
            eng.prove(c1 == c2, "crc32 survives")
    probe = [0x01, 0x7E, 0x81, 0xFD][eng.choice("probe", 4)]
    try:
        idx.object_offset(bytes([probe]) + tail)
        eng.fail("an absent name must not be found")
    except KeyError:
        pass
    fo = [idx._fan_out_table[i] for i in (0, 127, 255)]
    eng.prove(And(fo[0] <= fo[1], fo[1] <= fo[2], fo[2] == k), "fan-out is monotone and ends at the entry count")


def checks(tier):
    q = ("quick", "thorough")
    return _b02(tier) + [
        KCheck("C02c.index_roundtrip", h_index_roundtrip, parts=[{"version": v, "k": k} for v in (1, 2, 3) for k in (1, 2)],
               encoded=["dulwich.pack.write_pack_index_v1/v2/v3", "dulwich.pack.PackIndex1/2/3 (_unpack_entry, _unpack_offset, "
                        "_unpack_crc32_checksum, _object_offset, fan-out)", "dulwich.pack.bisect_find_sha", "dulwich.pack.HashWriter"],
               bounds="1-2 entries; pack offsets (any value below 2^63: inline, top-bit and 64-bit-table cases) and crc32 symbolic; first "
                      "name bytes a solver-forked choice of fan-out boundary values {00,7F,80,FE,FF}; versions 1, 2, 3; absent probes",
               outside="more entries; SHA-256 names; the index's own trailing checksum (hashed data is symbolic: uninterpreted)",
               assumptions=["sha1 over symbolic data is an uninterpreted function (fresh digest bytes)"], max_decisions=900, tiers=q),
    ]


# ---------------------------------------------------------------------------------------------
# (e) delta chains of mixed kinds: random access == sequential iteration == what was written
import hashlib as _hl
import os as _os
import shutil as _sh
import struct as _st
import zlib as _zl

_b02e = checks


def _hdr(type_num, size):
    out = bytearray()
    c = (type_num << 4) | (size & 0x0F)
    size >>= 4
    while size:
        out.append(c | 0x80)
        c = size & 0x7F
        size >>= 7
    out.append(c)
    return bytes(out)


def _ofs(n):
    out = [n & 0x7F]
    n >>= 7
    while n:
        n -= 1
        out.insert(0, 0x80 | (n & 0x7F))
        n >>= 7
    return bytes(out)


def _sha(type_name, data):
    return _hl.sha1(type_name + b" %d\0" % len(data) + data).digest()


def h_delta_chain(eng, depth=2):
    """a pack whose objects form a delta chain with a symbolic mix of OFS_DELTA / REF_DELTA hops and a symbolic
    physical order: Pack.get_raw in any access order, sequential iteration and the written contents agree"""
    from vf.interpose import scratch
    from dulwich.pack import Pack, PackData, create_delta
    contents = [b"base content line\n" * 3]
    for i in range(depth):
        contents.append(contents[-1] + b"addition %d\n" % i)
    kinds = [eng.choice(f"kind{i}", 2) for i in range(depth)]          # 0 = OFS_DELTA, 1 = REF_DELTA
    ref_first = bool(eng.choice("ref_deltas_first", 2))                 # REF deltas may precede their base physically
    shas = [_sha(b"blob", c) for c in contents]
    # physical order: base first, then deltas; optionally REF deltas are moved to the front (allowed by the format)
    order = list(range(depth + 1))
    if ref_first:
        order = [i for i in order if i > 0 and kinds[i - 1] == 1] + [i for i in order if not (i > 0 and kinds[i - 1] == 1)]
    body = bytearray(b"PACK" + _st.pack(">LL", 2, depth + 1))
    offsets = {}
    for i in order:
        offsets[i] = len(body)
        if i == 0:
            body += _hdr(3, len(contents[0])) + _zl.compress(contents[0])
        else:
            delta = b"".join(create_delta(contents[i - 1], contents[i]))
            if kinds[i - 1] == 0:
                if (i - 1) not in offsets:
                    eng.assume(False)         # an OFS delta must come after its base
                body += _hdr(6, len(delta)) + _ofs(offsets[i] - offsets[i - 1]) + _zl.compress(delta)
            else:
                body += _hdr(7, len(delta)) + shas[i - 1] + _zl.compress(delta)
    data = bytes(body) + _hl.sha1(body).digest()
    d = scratch("c02e")
    try:
        base = _os.path.join(d, "pack-test")
        with open(base + ".pack", "wb") as f:
            f.write(data)
        pd = PackData(base + ".pack", object_format=DEFAULT_OBJECT_FORMAT)
        pd.create_index(base + ".idx", version=2)
        pd.close()
        p = Pack(base, object_format=DEFAULT_OBJECT_FORMAT)
        try:
            acc = [0, 1, 2][:depth + 1]
            first = eng.choice("first_access", depth + 1)
            acc = [first] + [i for i in range(depth + 1) if i != first]
            for i in acc:
                try:
                    t, raw = p.get_raw(shas[i])
                except Exception as e:
                    eng.fail(f"random access to object {i} of chain kinds={kinds} ref_first={ref_first} failed: {type(e).__name__}: {e}")
                    continue
                eng.prove(t == 3 and raw == contents[i], f"random access returns the written content (object {i}, kinds={kinds})")
            seq = {o.id: o.as_raw_string() for o in p.iterobjects()}
            eng.prove(len(seq) == depth + 1, "sequential iteration yields every object")
            for i in range(depth + 1):
                from dulwich.objects import sha_to_hex
                eng.prove(seq.get(sha_to_hex(shas[i])) == contents[i], "sequential iteration agrees with the written content")
            p.check()
        finally:
            p.close()
    finally:
        _sh.rmtree(d, ignore_errors=True)


def checks(tier):
    q = ("quick", "thorough")
    return _b02e(tier) + [
        KCheck("C02e.delta_chain", h_delta_chain, parts=[{"depth": 2}, {"depth": 3}],
               encoded=["dulwich.pack.Pack.get_raw/resolve_object/iterobjects/check", "dulwich.pack.PackData.create_index/get_object_at",
                        "dulwich.pack.DeltaChainIterator/PackIndexer", "dulwich.pack.unpack_object/_decode_delta_base_offset", "dulwich.pack.apply_delta"],
               bounds="chains of 2 and 3 deltas on a base blob; every hop symbolically OFS_DELTA or REF_DELTA; REF deltas optionally "
                      "stored before their base; every choice of the first object accessed; real pack and index files",
               outside="chains deeper than 3; thin packs (external bases); compression levels", tiers=q),
    ]


# ---------------------------------------------------------------------------------------------
# (g) entries whose deflate stream ends at / next to the 64 KiB slice boundary of the mmap reader: CRCs and contents
_b02g = checks


_PAYLOADS = {}


def _payload_for_stream_len(want, level):
    """blob payload whose zlib stream (at this level) is exactly `want` bytes long (deterministic pseudo-random content)"""
    import zlib as _z
    import hashlib as _h
    if (want, level) in _PAYLOADS:
        return _PAYLOADS[(want, level)]
    seed = b"".join(_h.sha256(b"%d" % i).digest() for i in range(want // 32 + 64))
    f = lambda n: len(_z.compress(seed[:n], level))
    lo, hi = 0, len(seed)
    while hi - lo > 1:                     # incompressible data: the stream length grows with the payload length
        mid = (lo + hi) // 2
        if f(mid) < want:
            lo = mid
        else:
            hi = mid
    res = None
    for n in range(max(0, hi - 24), hi + 24):
        if f(n) == want:
            res = seed[:n]
            break
    _PAYLOADS[(want, level)] = res
    return res


def h_zlib_slice_boundary(eng, level=0, mult=1):
    import binascii
    import zlib as _z
    from dulwich.objects import Blob
    from dulwich.pack import write_pack_objects, PackData, load_pack_index, Pack
    from dulwich.repo import Repo
    from vf.interpose import scratch
    delta = eng.choice("stream_length_minus_boundary_plus_2", 5) - 2
    payload = _payload_for_stream_len(65536 * mult + delta, level)
    eng.assume(payload is not None)
    big = Blob.from_string(payload)
    small = Blob.from_string(b"small\n")
    order = eng.choice("big_first", 2)
    objs = [big, small] if order else [small, big]
    d = scratch("c02g")
    try:
        how = eng.choice("index_built_by", 2)
        if how == 0:
            path = _os.path.join(d, "p.pack")
            with open(path, "wb") as f:
                write_pack_objects(f.write, [(o, None) for o in objs], compression_level=level, object_format=DEFAULT_OBJECT_FORMAT)
            pd = PackData(path, object_format=DEFAULT_OBJECT_FORMAT)
            pd.create_index(_os.path.join(d, "p.idx"))
            pd.close()
            stem = _os.path.join(d, "p")
        else:
            r = Repo.init_bare(d)
            r.object_store.pack_compression_level = level
            r.object_store.add_objects([(o, None) for o in objs])
            pdir = _os.path.join(d, "objects", "pack")
            stem = _os.path.join(pdir, [f for f in _os.listdir(pdir) if f.endswith(".pack")][0][:-5])
            r.close()
        with open(stem + ".pack", "rb") as f:
            raw = f.read()
        idx = load_pack_index(stem + ".idx", DEFAULT_OBJECT_FORMAT)
        ents = sorted((off, sha, crc) for sha, off, crc in idx.iterentries())
        ends = [e[0] for e in ents[1:]] + [len(raw) - 20]
        tag = f"[level {level}, stream length 65536*{mult}{delta:+d}, big {'first' if order else 'last'}, index by {'PackData.create_index' if how == 0 else 'add_objects'}]"
        for (off, sha, crc), end in zip(ents, ends):
            eng.prove(crc == (binascii.crc32(raw[off:end]) & 0xFFFFFFFF),
                      f"{tag} the CRC in the index equals the CRC of the entry's bytes in the pack (entry at {off}, {end - off} bytes)")
        idx.close()
        p = Pack(stem, object_format=DEFAULT_OBJECT_FORMAT)
        try:
            for o in objs:
                t, data = p.get_raw(o.id)
                eng.prove(data == o.as_raw_string(), f"{tag} object reads back by random access")
            got = {o.id: o.as_raw_string() for o in p.iterobjects()}
            eng.prove(got == {o.id: o.as_raw_string() for o in objs}, f"{tag} objects read back by iteration")
            p.check()
        finally:
            p.close()
    finally:
        _sh.rmtree(d, ignore_errors=True)


def checks(tier):
    q = ("quick", "thorough")
    return _b02g(tier) + [
        KCheck("C02g.zlib_slice_boundary", h_zlib_slice_boundary, parts=[{"level": l, "mult": m} for l in (0, -1) for m in (1, 2)],
               encoded=["dulwich.pack.read_zlib_chunks_at/unpack_object_at", "dulwich.pack.PackData.create_index/PackIndexer",
                        "dulwich.object_store.DiskObjectStore.add_objects", "dulwich.pack.Pack.get_raw/iterobjects/check"],
               bounds="a blob whose deflate stream is 65536*m-2 .. 65536*m+2 bytes long (m = 1, 2; compression levels 0 and default), "
                      "first or last in a 2-object pack, index built by PackData.create_index or by add_objects",
               outside="other stream lengths; streams over 128 KiB", tiers=q),
    ]


# ---------------------------------------------------------------------------------------------
# (h) packs written for a subset of a delta-compressed store, with delta reuse: self-contained up to the receiver's haves
_b02h = checks


def h_subset_reuse(eng):
    """a store whose only pack holds three versions of a blob as a delta chain; a pack is written (reuse_deltas on/off)
    for every non-empty subset of the versions, with every subset of the remaining ones declared as already held by the
    receiver: the new pack reads back (random access, iteration) on a receiver that holds exactly the declared objects"""
    from dulwich.objects import Blob
    from dulwich.pack import deltify_pack_objects, write_pack_from_container, Pack, PackData, REF_DELTA, OFS_DELTA
    from dulwich.object_store import DiskObjectStore
    from vf.interpose import scratch
    lines = [b"line %04d: the quick brown fox jumps over the lazy dog\n" % i for i in range(120)]
    vs = [Blob.from_string(b"".join(lines[:n])) for n in (60, 90, 120)]
    d, d2 = scratch("c02h"), scratch("c02i")
    try:
        src = DiskObjectStore.init(d)
        records = list(deltify_pack_objects(iter([(o, None) for o in vs])))
        src.add_pack_data(len(records), iter(records))
        (pack,) = src.packs
        ndelta = sum(1 for o in vs if pack.get_unpacked_object(o.id, convert_ofs_delta=False).pack_type_num in (REF_DELTA, OFS_DELTA))
        eng.prove(ndelta >= 1, "set-up: the source pack stores at least one version as a delta")
        sel = [bool(eng.bool(f"send_v{i}")) for i in range(3)]
        eng.assume(any(sel))
        have = [(not sel[i]) and bool(eng.bool(f"receiver_has_v{i}")) for i in range(3)]
        reuse = bool(eng.bool("reuse_deltas"))
        ids = [(vs[i].id, None) for i in range(3) if sel[i]]
        other = {vs[i].id for i in range(3) if have[i]}
        path = _os.path.join(d2, "out.pack")
        with open(path, "wb") as f:
            write_pack_from_container(f.write, src, ids, DEFAULT_OBJECT_FORMAT, reuse_deltas=reuse, other_haves=other)
        src.close()
        tag = f"[send {[i for i in range(3) if sel[i]]}, receiver has {[i for i in range(3) if have[i]]}, reuse_deltas={reuse}]"
        # the receiver: a store holding exactly the declared objects, then the new pack (thin w.r.t. those only)
        dst = DiskObjectStore.init(_os.path.join(d2, "dst"))
        for i in range(3):
            if have[i]:
                dst.add_object(vs[i])
        try:
            with open(path, "rb") as f:
                dst.add_thin_pack(f.read, None)
        except Exception as e:
            eng.fail(f"{tag} the receiver cannot ingest the pack: {type(e).__name__}: {e}")
            return
        for i in range(3):
            if sel[i] or have[i]:
                try:
                    t, data = dst.get_raw(vs[i].id)
                except Exception as e:
                    eng.fail(f"{tag} version {i} unreadable on the receiver: {type(e).__name__}: {e}")
                    continue
                eng.prove(data == vs[i].as_raw_string(), f"{tag} version {i} byte-identical on the receiver")
        dst.close()
        if not other:
            # nothing was declared: the pack must be readable on its own
            pdat = PackData(path, object_format=DEFAULT_OBJECT_FORMAT)
            try:
                pdat.create_index(_os.path.join(d2, "out.idx"))
            except Exception as e:
                eng.fail(f"{tag} the pack is not self-contained: {type(e).__name__}: {e}")
                return
            finally:
                pdat.close()
            p = Pack(_os.path.join(d2, "out"), object_format=DEFAULT_OBJECT_FORMAT)
            try:
                got = {o.id: o.as_raw_string() for o in p.iterobjects()}
                eng.prove(got == {vs[i].id: vs[i].as_raw_string() for i in range(3) if sel[i]}, f"{tag} iteration yields exactly the sent objects")
                for i in range(3):
                    if sel[i]:
                        eng.prove(p.get_raw(vs[i].id)[1] == vs[i].as_raw_string(), f"{tag} random access to version {i}")
            finally:
                p.close()
    finally:
        _sh.rmtree(d, ignore_errors=True)
        _sh.rmtree(d2, ignore_errors=True)


def checks(tier):
    q = ("quick", "thorough")
    return _b02h(tier) + [
        KCheck("C02h.subset_reuse", h_subset_reuse,
               encoded=["dulwich.pack.write_pack_from_container/generate_unpacked_objects/find_reusable_deltas", "dulwich.pack.deltify_pack_objects",
                        "dulwich.object_store.DiskObjectStore.add_pack_data/add_thin_pack", "dulwich.pack.PackData.create_index"],
               bounds="a source pack holding 3 versions of a blob as deltas; every non-empty subset sent, every subset of the others "
                      "declared as held by the receiver, delta reuse on/off; receiver = store with exactly the declared objects",
               outside="longer chains; commits/trees; bitmaps", tiers=q),
    ]
