"""C19 — pkt-line and side-band framing under any chunking."""
from __future__ import annotations

from vf.common import KCheck
from vf.ksym.core import And, Or, Not, Ite
from vf.ksym.sbytes import SymBytes, _out, elems_of

import dulwich.protocol as PR
from dulwich.errors import GitProtocolError, HangupException

PROPERTY = "C19"


def _hexval(e):
    """reference: value of a hex digit element, and validity (non forking)"""
    dig = And(e >= 48, e <= 57)
    low = And(e >= 97, e <= 102)
    upp = And(e >= 65, e <= 70)
    return Or(dig, low, upp), Ite(dig, e - 48, Ite(low, e - 87, e - 55))


def _cat(parts, eng):
    if eng.mode == "concrete":
        return b"".join(bytes(p) for p in parts)
    return SymBytes([]).join(parts)


def h_parse_len(eng):
    """_parse_pkt_line_length on all 2^32 four-byte prefixes"""
    s = eng.bytes("prefix", 4)
    oks, vals = zip(*[_hexval(e) for e in elems_of(s)])
    allhex = And(*oks)
    ref = ((vals[0] * 16 + vals[1]) * 16 + vals[2]) * 16 + vals[3]
    try:
        r = PR._parse_pkt_line_length(s)
    except GitProtocolError:
        eng.prove(Not(allhex), "refused only if some byte is not a hex digit")
        return
    eng.observe("len", r)
    eng.prove(allhex, "accepted only if all four bytes are hex digits")
    eng.prove(And(r == ref, r >= 0, r <= 65535), "value equals the reference and is in [0,65535]")


def h_parse_len_sizes(eng, n=3):
    """prefixes of the wrong size are refused"""
    s = eng.bytes("prefix", n)
    try:
        PR._parse_pkt_line_length(s)
    except GitProtocolError:
        return
    eng.fail("a prefix that is not 4 bytes long was accepted")


def ref_parse_stream(e):
    """independent reference pkt-line stream parser (git pkt-line.c semantics) over an element list:
    returns (frames, consumed) where frames are payload element lists or None (flush);
    stops at an incomplete frame; raises ValueError on a malformed prefix"""
    frames = []
    pos = 0
    while len(e) - pos >= 4:
        oks, vals = zip(*[_hexval(x) for x in e[pos:pos + 4]])
        if not And(*oks):
            raise ValueError("bad prefix")
        size = ((vals[0] * 16 + vals[1]) * 16 + vals[2]) * 16 + vals[3]
        if size == 0:
            frames.append(None)
            pos += 4
            continue
        if size < 4:
            raise ValueError("bad length")
        if size <= len(e) - pos:
            size = int(size)
            frames.append(e[pos + 4:pos + size])
            pos += size
        else:
            break
    return frames, pos


def h_parser_total(eng, n=6):
    """PktLineParser.parse + get_tail on every byte string of length n: frames + tail partition the
    input exactly as the reference parser says, or GitProtocolError exactly when the reference refuses"""
    data = eng.bytes("data", n)
    got = []
    p = PR.PktLineParser(got.append)
    try:
        p.parse(data)
        err = False
    except GitProtocolError:
        err = True
    try:
        frames, consumed = ref_parse_stream(elems_of(data))
        rerr = False
    except ValueError:
        rerr = True
    eng.prove(err == rerr, "protocol error iff the reference parser refuses")
    if err:
        return
    tail = p.get_tail()
    eng.observe("frames", [f for f in got])
    eng.prove(len(got) == len(frames), "same number of frames")
    for a, b in zip(got, frames):
        if a is None or b is None:
            eng.prove(a is None and b is None, "flush packets agree")
        else:
            eng.prove(a == _out(b), "payload agrees")
    eng.prove(tail == _out(elems_of(data)[consumed:]), "tail is exactly the unconsumed rest")


def h_parser_chunked(eng, n=6):
    """PktLineParser fed the same stream cut at a symbolic position yields the same frames and tail"""
    data = eng.bytes("data", n)
    cut = eng.choice("cut", n + 1)
    cut2 = cut + eng.choice("cut2", n - cut + 1)
    one, two = [], []
    p1 = PR.PktLineParser(one.append)
    p2 = PR.PktLineParser(two.append)
    e1 = e2 = False
    try:
        p1.parse(data)
    except GitProtocolError:
        e1 = True
    try:
        p2.parse(data[:cut])
        p2.parse(data[cut:cut2])
        p2.parse(data[cut2:])
    except GitProtocolError:
        e2 = True
    eng.prove(e1 == e2, "error independent of chunking")
    if e1:
        return
    eng.prove(len(one) == len(two), "same frame count under chunking")
    for a, b in zip(one, two):
        eng.prove((a is None and b is None) or (a is not None and b is not None and a == b), "same frames")
    eng.prove(p1.get_tail() == p2.get_tail(), "same tail")


def h_read_pkt_line(eng, n=6):
    """Protocol.read_pkt_line over a stream of n symbolic bytes: every outcome is a frame, a flush
    (None) or GitProtocolError/HangupException, and agrees with the reference"""
    data = eng.bytes("data", n)
    e = elems_of(data)
    pos = [0]

    def read(k):
        rem = len(e) - pos[0]
        k = rem if k >= rem else int(k)
        r = e[pos[0]:pos[0] + k]
        pos[0] += len(r)
        return _out(r)

    proto = PR.Protocol(read, lambda b: None)
    try:
        pkt = proto.read_pkt_line()
        err = None
    except HangupException:
        err = "hangup"
    except GitProtocolError:
        err = "proto"
    if n < 4:
        eng.prove(err is not None, "short stream cannot yield a frame")
        return
    oks, vals = zip(*[_hexval(x) for x in e[:4]])
    size = ((vals[0] * 16 + vals[1]) * 16 + vals[2]) * 16 + vals[3]
    if not And(*oks):
        eng.prove(err == "proto", "bad prefix is a protocol error")
        return
    if Or(size == 0, size == 1):
        eng.prove(err is None and pkt is None, "flush/delim yields None")
        return
    if size < 4:
        eng.prove(err == "proto", "length 2,3 refused")
        return
    if size > n:
        eng.prove(err is not None, "truncated frame is an error, never a short payload")
        return
    size = int(size)
    eng.observe("pkt", pkt)
    eng.prove(err is None and pkt == _out(e[4:size]), "payload is exactly the framed bytes")
    eng.prove(pos[0] == size, "consumed exactly one frame")


def h_receivable_read(eng, n=5):
    """ReceivableProtocol.read/recv: whatever sizes recv() returns (symbolic 1..asked), the bytes
    delivered by a symbolic sequence of read()/recv() calls are the stream, in order, nothing lost"""
    data = eng.bytes("data", n)
    e = elems_of(data)
    pos = [0]
    k = [0]

    def recv(size):
        size = int(size)
        rem = len(e) - pos[0]
        if rem == 0:
            return b""
        m = min(size, rem)
        got = 1 + eng.choice(f"chunk{k[0]}", m)
        k[0] += 1
        r = e[pos[0]:pos[0] + got]
        pos[0] += got
        return _out(r)

    proto = PR.ReceivableProtocol(recv, lambda b: None, rbufsize=3)
    out = []
    for i in range(3):
        want = 1 + eng.choice(f"want{i}", 3)
        if eng.bool(f"userecv{i}"):
            r = proto.recv(want)
            eng.prove(len(r) <= want, "recv returns at most size bytes")
        else:
            r = proto.read(want)
            delivered = sum(len(x) for x in out)
            eng.prove(len(r) == min(want, n - delivered), "read returns exactly size bytes unless EOF")
        out.append(r)
    res = _cat(out, eng)
    eng.prove(res == _out(e[:len(res)]), "delivered bytes are the stream prefix, in order")
    proto._close = None


def h_buffered_writer(eng, bufsize=12):
    """BufferedPktLineWriter: concatenation of everything flushed == concatenation of the pkt-lines,
    for writes of symbolic lengths around bufsize"""
    out = []
    w = PR.BufferedPktLineWriter(out.append, bufsize=bufsize)
    lines = []
    for i in range(3):
        d = eng.bytes_upto(f"w{i}", 7)
        w.write(d)
        lines.append(PR.pkt_line(d))
    w.flush()
    eng.prove(_cat(out, eng) == _cat(lines, eng), "flushed data == concatenated frames")


def _clean(eng, b, forbid=()):
    """protocol tokens: printable, non-space bytes (git capability tokens / ref names / object ids never
    contain ASCII control characters or blanks)"""
    for x in elems_of(b):
        eng.assume(And(x > 32, x != 127))


def h_caps_roundtrip(eng, n=2):
    """format_ref_line -> extract_capabilities round trip; want line; cmd pkt"""
    ref = eng.bytes_upto("ref", 3, 1)
    sha = eng.bytes("sha", 2)
    caps = [eng.bytes_upto(f"cap{i}", 2, 1) for i in range(n)]
    for b in [ref, sha] + caps:
        _clean(eng, b)
    line = PR.format_ref_line(ref, sha, caps)
    text, got = PR.extract_capabilities(line)
    eng.prove(text == sha + b" " + ref, "ref text survives")
    eng.prove(len(got) == len(caps) and And(*[a == b for a, b in zip(got, caps)]), "capabilities survive")
    # no capabilities at all
    t2, c2 = PR.extract_capabilities(PR.format_ref_line(ref, sha))
    eng.prove(And(t2 == sha + b" " + ref + b"\n", len(c2) == 0), "plain ref line untouched")
    # want line
    want = b"want " + sha + PR.format_capability_line(caps) + b"\n"
    t3, c3 = PR.extract_want_line_capabilities(want)
    eng.prove(t3 == b"want " + sha, "want text")
    eng.prove(len(c3) == len(caps) and And(*[a == b for a, b in zip(c3, caps)]), "want capabilities")


def h_caps_inner_blank(eng):
    """capability values may carry any byte except SP, NUL and LF inside (e.g. agent=x<TAB>(patched)): entries are
    separated by single spaces only, so such a value survives the round trip as one entry"""
    ref = b"refs/heads/m"
    sha = b"1" * 40
    mid = eng.byte("mid")
    eng.assume(And(mid != 32, mid != 0, mid != 10))
    a, z = eng.byte("first"), eng.byte("last")
    for x in (a, z):
        eng.assume(And(x > 32, x != 127))
    cap = SymBytes([a, mid, z])
    caps = [b"side-band-64k", cap, b"ofs-delta"]
    line = PR.format_ref_line(ref, sha, caps)
    text, got = PR.extract_capabilities(line)
    eng.prove(text == sha + b" " + ref, "ref text survives")
    eng.prove(len(got) == 3, "three capabilities come back as three entries")
    if len(got) == 3:
        eng.prove(And(got[0] == caps[0], got[1] == cap, got[2] == caps[2]), "each capability survives unchanged")


def h_cmd_pkt(eng):
    cmd = eng.bytes_upto("cmd", 3, 1)
    args = [eng.bytes_upto(f"a{i}", 2) for i in range(2)]
    _clean(eng, cmd)
    for a in args:
        _clean(eng, a)
    c2, a2 = PR.parse_cmd_pkt(PR.format_cmd_pkt(cmd, *args))
    eng.prove(c2 == cmd, "command survives")
    eng.prove(len(a2) == 2 and And(a2[0] == args[0], a2[1] == args[1]), "arguments survive")


def h_sideband(eng, n=3):
    """write_sideband -> pkt-line decode -> _read_side_band64k_data demultiplexes to the same blob"""
    from dulwich.client import _read_side_band64k_data
    written = []
    proto = PR.Protocol(lambda k: b"", written.append)
    ch = eng.int("channel", 1, 3)
    blob = eng.bytes("blob", n)
    proto.write_sideband(ch, blob)
    stream = _cat(written, eng)
    got = []
    p = PR.PktLineParser(got.append)
    p.parse(stream)
    eng.prove(len(p.get_tail()) == 0, "no tail")
    pairs = list(_read_side_band64k_data(got))
    eng.prove(And(*[c == ch for c, _ in pairs]), "channel preserved")
    eng.prove(_cat([d for _, d in pairs], eng) == blob, "payload preserved")
    proto._close = None


def checks(tier):
    q = ("quick", "thorough")
    t = ("thorough",)
    enc = "dulwich.protocol."
    return [
        KCheck("C19a.parse_len", h_parse_len, encoded=[enc + "_parse_pkt_line_length"],
               bounds="all 2^32 four-byte prefixes in one symbolic run", outside="-",
               pins=[(0, {"prefix": list(b"0000")}), (0, {"prefix": list(b"fFa9")}), (0, {"prefix": list(b"+123")}),
                     (0, {"prefix": list(b" 12 ")}), (0, {"prefix": list(b"1_23")})], tiers=q),
        KCheck("C19a.parse_len_sizes", h_parse_len_sizes, parts=[{"n": n} for n in (0, 1, 2, 3, 5)],
               encoded=[enc + "_parse_pkt_line_length"], bounds="every prefix of length 0,1,2,3,5", outside="-", tiers=q),
        KCheck("C19d.parser_total", h_parser_total, parts=[{"n": n} for n in range(0, 8)],
               encoded=[enc + "PktLineParser.parse", enc + "PktLineParser.get_tail", enc + "_parse_pkt_line_length"],
               bounds="every byte string of length 0..7 (all 256 values per byte)", outside="longer streams",
               pins=[(6, {"data": list(b"0005a0")}), (7, {"data": list(b"00000004")[:7]}), (6, {"data": list(b"0003zz")})],
               tiers=q),
        KCheck("C19d.parser_total_9", h_parser_total, parts=[{"n": n} for n in (8, 9)],
               encoded=[enc + "PktLineParser.parse"], bounds="every byte string of length 8 and 9", outside="longer",
               time_budget=3000, tiers=t),
        KCheck("C19e.parser_chunked", h_parser_chunked, parts=[{"n": n} for n in range(4, 8)],
               encoded=[enc + "PktLineParser.parse", enc + "PktLineParser.get_tail"],
               bounds="every byte string of length 4..7 x every pair of cut positions", outside="more than 2 cuts",
               tiers=q),
        KCheck("C19d.read_pkt_line", h_read_pkt_line, parts=[{"n": n} for n in range(0, 8)],
               encoded=[enc + "Protocol.read_pkt_line", enc + "_parse_pkt_line_length"],
               bounds="every stream of 0..7 bytes", outside="longer streams",
               pins=[(6, {"data": list(b"0006ab")}), (5, {"data": list(b"0001a")}), (6, {"data": list(b"0008ab")})],
               tiers=q),
        KCheck("C19e.receivable_read", h_receivable_read, parts=[{"n": n} for n in (2, 3, 4, 5)],
               encoded=[enc + "ReceivableProtocol.read", enc + "ReceivableProtocol.recv"],
               bounds="streams of 2..5 symbolic bytes; recv() returns any 1..asked bytes (symbolic); 3 calls each "
                      "symbolically read(1..3) or recv(1..3); rbufsize=3",
               outside="more than 3 calls; larger rbufsize", max_decisions=300, tiers=q),
        KCheck("C19e.buffered_writer", h_buffered_writer, parts=[{"bufsize": b} for b in (8, 12, 16)],
               encoded=[enc + "BufferedPktLineWriter.write", enc + "BufferedPktLineWriter.flush", enc + "pkt_line"],
               bounds="3 writes of 0..7 symbolic bytes each, bufsize 8/12/16 (every over/under/exact-fill case)",
               outside="default bufsize 65515 (needs opaque ropes)", tiers=q),
        KCheck("C19f.caps_roundtrip", h_caps_roundtrip, parts=[{"n": 1}, {"n": 2}],
               encoded=[enc + "format_ref_line", enc + "extract_capabilities", enc + "extract_want_line_capabilities",
                        enc + "format_capability_line"],
               bounds="ref 1..3 bytes, sha 2 bytes, 1..2 capabilities of 1..2 bytes, every byte value > 0x20 except DEL",
               outside="longer fields; fields containing ASCII control characters or blanks (not valid protocol tokens)", tiers=q),
        KCheck("C19f.caps_inner_blank", h_caps_inner_blank, encoded=["dulwich.protocol.format_ref_line", "dulwich.protocol.extract_capabilities"],
               bounds="a 3-byte capability between two ordinary ones whose middle byte is any byte except SP, NUL, LF (TAB, CR, "
                      "VT, FF and non-ASCII included) and whose outer bytes are printable non-blank",
               outside="blanks at the ends of a capability (stripped by design)", tiers=q),
        KCheck("C19f.cmd_pkt", h_cmd_pkt, encoded=[enc + "format_cmd_pkt", enc + "parse_cmd_pkt"],
               bounds="cmd 1..3 bytes, two args of 0..2 bytes, every byte value > 0x20 except DEL", outside="longer", tiers=q),
        KCheck("C19g.sideband", h_sideband, parts=[{"n": n} for n in (0, 1, 3)],
               encoded=[enc + "Protocol.write_sideband", enc + "Protocol.write_pkt_line", enc + "pkt_line",
                        "dulwich.client._read_side_band64k_data"],
               bounds="blob of 0,1,3 symbolic bytes, channel 1..3", outside="blobs > 65515 bytes (needs opaque ropes)",
               tiers=q),
    ]


# ---------------------------------------------------------------------------------------------
# (b,c) frame-size limits: lengths are solver-forked choices around the constants of the format
LARGE_PACKET_MAX = 65520
_b19 = checks


def h_pkt_line_limit(eng):
    """pkt_line(data) for payload lengths around the limits: the frame is 4 hex digits + payload and at most 65520
    bytes long, and parses back — or the call refuses"""
    n = [0, 1, 65515, 65516, 65517, 65519, 65520, 65531, 65532, 70000][eng.choice("len_case", 10)]
    data = b"x" * n
    try:
        frame = PR.pkt_line(data)
    except (ValueError, GitProtocolError):
        eng.prove(n > LARGE_PACKET_MAX - 4, "only payloads that do not fit one frame are refused")
        return
    eng.prove(len(frame) == n + 4, "frame is a 4-byte prefix plus the payload")
    eng.prove(len(frame) <= LARGE_PACKET_MAX, f"frame of {len(frame)} bytes exceeds the pkt-line maximum of {LARGE_PACKET_MAX}")
    eng.prove(PR._parse_pkt_line_length(frame[:4]) == len(frame), "prefix parses back to the frame length")


def h_sideband_limit(eng):
    """write_sideband splits blobs around the 65515-byte boundary into frames of at most 65520 bytes whose payloads
    concatenate to the blob"""
    n = [65514, 65515, 65516, 65517, 131029, 131030, 131031, 196546][eng.choice("len_case", 8)]
    blob = bytes((i * 7) & 0xFF for i in range(n))
    written = []
    proto = PR.Protocol(lambda k: b"", written.append)
    proto.write_sideband(2, blob)
    proto._close = None
    stream = b"".join(written)
    pos = 0
    out = []
    while pos < len(stream):
        ln = PR._parse_pkt_line_length(stream[pos:pos + 4])
        eng.prove(4 < ln <= LARGE_PACKET_MAX, f"side-band frame of {ln} bytes (blob of {n} bytes) exceeds the pkt-line maximum")
        eng.prove(stream[pos + 4] == 2, "channel byte first")
        out.append(stream[pos + 5:pos + ln])
        pos += ln
    eng.prove(b"".join(out) == blob, "payloads concatenate to the blob")


def h_buffered_writer_default(eng):
    """BufferedPktLineWriter with its default buffer: data flushed == frames written, for payload lengths around the buffer size"""
    out = []
    w = PR.BufferedPktLineWriter(out.append)
    lines = []
    for i in range(3):
        n = [0, 1, 65510, 65511, 65512, 30000][eng.choice(f"len{i}", 6)]
        d = bytes([65 + i]) * n
        w.write(d)
        lines.append(PR.pkt_line(d))
    w.flush()
    eng.prove(b"".join(out) == b"".join(lines), "flushed data == concatenated frames")


def checks(tier):
    q = ("quick", "thorough")
    enc = "dulwich.protocol."
    return _b19(tier) + [
        KCheck("C19b.pkt_line_limit", h_pkt_line_limit, encoded=[enc + "pkt_line", enc + "_parse_pkt_line_length"],
               bounds="payload lengths {0,1,65515,65516,65517,65519,65520,65531,65532,70000} (solver-forked choice around the "
                      "constants 65520 and 65535-4; the payload content is irrelevant to the code)",
               outside="other lengths (a symbolic length needs opaque ropes, not built)", tiers=q),
        KCheck("C19c.sideband_limit", h_sideband_limit, encoded=[enc + "Protocol.write_sideband", enc + "Protocol.write_pkt_line", enc + "pkt_line"],
               bounds="blob lengths {65514..65517, 131029..131031, 196546} (around 1x, 2x, 3x the 65515-byte side-band payload)",
               outside="other lengths", tiers=q),
        KCheck("C19e.buffered_writer_default", h_buffered_writer_default, encoded=[enc + "BufferedPktLineWriter"],
               bounds="3 writes, each of length 0, 1, 30000, 65510, 65511 or 65512 (around the default 65515-byte buffer)",
               outside="other lengths", tiers=q),
    ]


# ---------------------------------------------------------------------------------------------
# (g) a buffer that holds complete frames followed by a fully symbolic rest (second-frame arithmetic)
_b19g = checks
_LEADS = [b"0000", b"0005z", b"00000000", b"0006ab0000"]


def h_parser_after_frames(eng, n=5, lead=0):
    """PktLineParser.parse on (complete leading frames) + (every byte string of length n), in one call and cut at every
    position of the symbolic rest: the frames and the tail are exactly the reference parser's - in particular an incomplete
    second frame whose declared size would fit into the whole buffer stays in the tail"""
    head = _LEADS[lead]
    rest = eng.bytes("data", n)
    data = _cat([head, rest], eng)
    cut = len(head) + eng.choice("cut", n + 1)
    for chunks in ([data], [data[:cut], data[cut:]]):
        got = []
        p = PR.PktLineParser(got.append)
        try:
            for c in chunks:
                p.parse(c)
            err = False
        except GitProtocolError:
            err = True
        try:
            frames, consumed = ref_parse_stream(elems_of(data))
            rerr = False
        except ValueError:
            rerr = True
        eng.prove(err == rerr, "protocol error iff the reference parser refuses")
        if err:
            return
        eng.prove(len(got) == len(frames), "same number of frames")
        for a, b in zip(got, frames):
            if a is None or b is None:
                eng.prove(a is None and b is None, "flush packets agree")
            else:
                eng.prove(a == _out(b), "payload agrees")
        eng.prove(p.get_tail() == _out(elems_of(data)[consumed:]), "tail is exactly the unconsumed rest")


def checks(tier):
    q = ("quick", "thorough")
    enc = "dulwich.protocol."
    return _b19g(tier) + [
        KCheck("C19g.parser_after_frames", h_parser_after_frames,
               parts=[{"n": n, "lead": k} for k in range(len(_LEADS)) for n in (4, 5, 6)],
               encoded=[enc + "PktLineParser.parse", enc + "PktLineParser.get_tail", enc + "_parse_pkt_line_length"],
               bounds="1-2 complete leading frames (flush, 1-byte payload, two flushes, 2-byte payload + flush) followed by every "
                      "byte string of length 4..6, parsed in one call and cut at every position of the symbolic part",
               outside="longer symbolic parts (C19d.parser_total_9 takes 8-9 fully symbolic bytes in the thorough tier)", tiers=q),
    ]
