"""C20 — configuration round trip; same meaning to dulwich and git."""
from __future__ import annotations

import io

from vf.common import KCheck
from vf.ksym.core import And, Or, Not
from vf.ksym.sbytes import SymBytes, SymBytesIO, _out, elems_of

import dulwich.config as CF

PROPERTY = "C20"

_GIT_SPACE = (9, 10, 13, 32)  # git-compat-util.h sane_ctype GIT_SPACE: SP TAB LF CR only (not VT/FF)


def _isin(e, vals):
    return bool(Or(*[e == v for v in vals]))


def ref_git_parse_value(e):
    """git config.c parse_value() (2.39) over the element list of the text after '=' up to (not
    including) the end of line; returns element list or None (parse error)."""
    out = []
    quote = False
    comment = False
    space = 0
    i = 0
    n = len(e)
    while True:
        if i >= n:                      # end of line
            return None if quote else out
        c = e[i]
        i += 1
        if c == 13 and i < n and e[i] == 10:   # get_next_char: CRLF -> LF
            c = e[i]
            i += 1
        if c == 10:
            return None if quote else out
        if comment:
            continue
        if not quote and _isin(c, _GIT_SPACE):
            if out:
                space += 1
            continue
        if not quote and _isin(c, (59, 35)):
            comment = True
            continue
        out += [32] * space
        space = 0
        if c == 92:
            if i >= n:
                return None             # backslash-EOF: get_next_char gives '\n' -> continuation at EOF
            c = e[i]
            i += 1
            if c == 10:
                continue
            if c == 116:
                out.append(9)
            elif c == 98:
                out.append(8)
            elif c == 110:
                out.append(10)
            elif _isin(c, (92, 34)):
                out.append(c)
            else:
                return None
            continue
        if c == 34:
            quote = not quote
            continue
        out.append(c)


def ref_git_write_value(e):
    """git config.c write_pair(): the text git writes after 'key = '"""
    quote = False
    if e and e[0] == 32:
        quote = True
    for c in e:
        if _isin(c, (59, 35, 13)):
            quote = True
    if e and e[-1] == 32:
        quote = True
    out = [34] if quote else []
    for c in e:
        if c == 10:
            out += [92, 110]
        elif c == 9:
            out += [92, 116]
        elif _isin(c, (34, 92)):
            out += [92, c]
        else:
            out.append(c)
    if quote:
        out.append(34)
    return out


def _value(eng, n):
    v = eng.bytes("value", n)
    for x in elems_of(v):
        eng.assume(x != 0)
    return v


def _known_regions(eng, v):
    e = elems_of(v)
    if eng.known("C20-semicolon-unquoted"):
        for x in e:
            eng.assume(x != 59)
    if eng.known("C20-cr-escape"):
        for x in e:
            eng.assume(x != 13)
    if eng.known("C20-edge-vt-ff"):
        if e:
            for x in (e[0], e[-1]):
                eng.assume(And(x != 11, x != 12))


def h_value_roundtrip(eng, n=3):
    """_parse_string(_format_string(v)) == v for every NUL-free value of length n"""
    v = _value(eng, n)
    _known_regions(eng, v)
    w = CF._format_string(v)
    back = CF._parse_string(w)
    eng.observe("written", w)
    eng.prove(back == v, "value reads back identically")


def h_git_reads_dulwich(eng, n=3):
    """what dulwich writes means the same value to git's parser (reference model of parse_value)"""
    v = _value(eng, n)
    _known_regions(eng, v)
    w = CF._format_string(v)
    got = ref_git_parse_value([32] + elems_of(w) + [10])
    eng.prove(got is not None, "git accepts the line dulwich wrote")
    if got is not None:
        eng.prove(_out(got) == v, "git reads the same value")


def h_dulwich_reads_git(eng, n=3):
    """what git writes (reference model of write_pair) reads back identically in dulwich"""
    v = _value(eng, n)
    e = elems_of(v)
    if eng.known("C20-reader-strips-vt-ff"):
        if e:
            for x in (e[0], e[-1]):
                eng.assume(And(x != 11, x != 12))
    w = ref_git_write_value(e)
    chk = ref_git_parse_value([32] + w + [10])
    eng.assume(chk is not None and bool(_out(chk) == v))   # only values git itself round-trips
    back = CF._parse_string(_out(w))
    eng.prove(back == v, "dulwich reads what git wrote")


def h_subsection(eng, n=3):
    """_unescape_subsection(_escape_subsection(s)) == s and the full header line parses back"""
    s = eng.bytes("sub", n)
    for x in elems_of(s):
        eng.assume(And(x != 0, x != 10))
    esc = CF._escape_subsection(s)
    eng.prove(CF._unescape_subsection(esc) == s, "subsection escape round trip")
    line = b'[remote "' + esc + b'"]\n'
    section, rest = CF._parse_section_header_line(line)
    eng.prove(len(section) == 2 and section[0] == b"remote", "section name")
    eng.prove(section[1] == s, "subsection survives the header line")


def h_file_roundtrip(eng, n=2):
    """ConfigFile.write_to_file -> from_file: two keys (one multi-valued) keep values and order"""
    v1 = eng.bytes("v1", n)
    v2 = eng.bytes("v2", 1)
    for x in elems_of(v1) + elems_of(v2):
        eng.assume(x != 0)
    _known_regions(eng, v1)
    _known_regions(eng, v2)
    cf = CF.ConfigFile()
    cf.set((b"core",), b"first", v1)
    cf.add((b"remote", b"o r"), b"fetch", v2)
    cf.add((b"remote", b"o r"), b"fetch", v1)
    f = io.BytesIO() if eng.mode == "concrete" else SymBytesIO()
    cf.write_to_file(f)
    data = f.getvalue()
    f2 = io.BytesIO(data) if eng.mode == "concrete" else SymBytesIO(data)
    cf2 = CF.ConfigFile.from_file(f2)
    eng.prove(cf2.get((b"core",), b"first") == v1, "single value survives the file")
    mv = list(cf2.get_multivar((b"remote", b"o r"), b"fetch"))
    eng.prove(len(mv) == 2, "multi-valued key keeps both values")
    if len(mv) == 2:
        eng.prove(And(mv[0] == v2, mv[1] == v1), "multi-valued key keeps order")


def h_names(eng, n=3):
    """_check_variable_name / _check_section_name = git's rule (alnum or '-'; sections also '.')"""
    s = eng.bytes("name", n)
    e = elems_of(s)

    def alnum(x):
        return Or(And(x >= 48, x <= 57), And(x >= 65, x <= 90), And(x >= 97, x <= 122))
    ref_var = And(*[Or(alnum(x), x == 45) for x in e])
    ref_sec = And(*[Or(alnum(x), x == 45, x == 46) for x in e])
    eng.prove(CF._check_variable_name(s) == ref_var, "variable-name rule")
    eng.prove(CF._check_section_name(s) == ref_sec, "section-name rule")


def checks(tier):
    q = ("quick", "thorough")
    t = ("thorough",)
    enc = "dulwich.config."
    return [
        KCheck("C20a.value_roundtrip", h_value_roundtrip, parts=[{"n": n} for n in (0, 1, 2, 3, 4)],
               encoded=[enc + "_format_string", enc + "_escape_value", enc + "_parse_string"],
               bounds="every value of length 0..4 over all byte values except NUL",
               outside="values longer than 4 bytes (5 in the thorough tier)", max_decisions=300,
               pins=[(3, {"value": list(b" a ")}), (3, {"value": list(b'"\\#')}), (2, {"value": list(b"\n\t")})],
               tiers=q),
        KCheck("C20a.value_roundtrip_5", h_value_roundtrip, parts=[{"n": 5}],
               encoded=[enc + "_format_string", enc + "_parse_string"], bounds="every NUL-free value of length 5",
               outside="longer values", max_decisions=400, time_budget=3000, tiers=t),
        KCheck("C20c.git_reads_dulwich", h_git_reads_dulwich, parts=[{"n": n} for n in (0, 1, 2, 3)],
               encoded=[enc + "_format_string", enc + "_escape_value"],
               bounds="every NUL-free value of length 0..3; git's reader = reference model of config.c parse_value (2.39)",
               outside="longer values; git versions whose parse_value differs",
               assumptions=["reference model of git's parse_value/write_pair transcribed from config.c 2.39; validated "
                            "against the installed git binary by tools/validate_git_models.py"], tiers=q),
        KCheck("C20c.dulwich_reads_git", h_dulwich_reads_git, parts=[{"n": n} for n in (0, 1, 2, 3)],
               encoded=[enc + "_parse_string"],
               bounds="every NUL-free value of length 0..3 that git itself round-trips; git's writer = "
                      "reference model of config.c write_pair",
               outside="longer values", tiers=q),
        KCheck("C20a.subsection", h_subsection, parts=[{"n": n} for n in (0, 1, 2, 3)],
               encoded=[enc + "_escape_subsection", enc + "_unescape_subsection", enc + "_parse_section_header_line",
                        enc + "_strip_comments", enc + "_check_section_name"],
               bounds="every subsection of length 0..3 without NUL/LF", outside="longer subsections", tiers=q),
        KCheck("C20b.file_roundtrip", h_file_roundtrip, parts=[{"n": n} for n in (0, 1, 2)],
               encoded=[enc + "ConfigFile.write_to_file", enc + "ConfigFile.from_file", enc + "ConfigDict.set/add",
                        enc + "CaseInsensitiveOrderedMultiDict", enc + "_parse_string", enc + "_format_string"],
               bounds="one single-valued key with a symbolic value of 0..2 bytes and one two-valued key (1 byte + the same "
                      "value) in a section with a subsection containing a blank",
               outside="longer values; more keys; set/unset sequences (thorough adds)", max_decisions=400, tiers=q),
        KCheck("C20a.names", h_names, parts=[{"n": n} for n in (1, 2)],
               encoded=[enc + "_check_variable_name", enc + "_check_section_name"],
               bounds="every name of 1..2 bytes", outside="longer names (rule is per character)", tiers=q),
    ]


# ---------------------------------------------------------------------------------------------
# (b') sequences of set / add / remove on a live ConfigFile vs a list-of-pairs model, then write and re-read
_b20 = checks


def h_sequences(eng, steps=4, op0=None, key0=None, val0=None):
    vals = [b"1", b"2", b"x y"]
    keys = [b"fetch", b"url", b"Fetch"]             # variable names are case-insensitive: fetch and Fetch are one key
    sec = (b"remote", b"origin")
    cf = CF.ConfigFile()
    model = []          # ordered list of (lower-cased key, value)
    for s in range(steps):
        op = op0 if (s == 0 and op0 is not None) else eng.choice(f"op{s}", 3)
        k = keys[key0 if (s == 0 and key0 is not None) else eng.choice(f"key{s}", 3)]
        v = vals[val0 if (s == 0 and val0 is not None) else eng.choice(f"val{s}", 3)]
        lk = k.lower()
        if op == 0:
            cf.set(sec, k, v)
            model = [(kk, vv) for kk, vv in model if kk != lk] + [(lk, v)]
        elif op == 1:
            cf.add(sec, k, v)
            model.append((lk, v))
        else:
            try:
                cf.remove(sec, k)
            except KeyError:
                pass
            model = [(kk, vv) for kk, vv in model if kk != lk]
        for kk in keys:
            want = [vv for k2, vv in model if k2 == kk.lower()]
            try:
                got = list(cf.get_multivar(sec, kk))
            except KeyError:
                got = []
            eng.prove(got == want, f"live object after step {s}: values of {kk!r} are {got}, model says {want}")
    f = io.BytesIO()
    cf.write_to_file(f)
    cf2 = CF.ConfigFile.from_file(io.BytesIO(f.getvalue()))
    for kk in keys:
        want = [vv for k2, vv in model if k2 == kk.lower()]
        try:
            got = list(cf2.get_multivar(sec, kk))
        except KeyError:
            got = []
        eng.prove(got == want, f"after write and re-read: values of {kk!r} are {got}, model says {want} (file: {f.getvalue()!r})")


def checks(tier):
    q = ("quick", "thorough")
    enc = "dulwich.config."
    return _b20(tier) + [
        KCheck("C20b.sequences_4", h_sequences, parts=[{"steps": 4, "op0": o, "key0": k, "val0": v} for o in range(3) for k in range(3) for v in range(3)],
               encoded=[enc + "ConfigDict.set/add/remove/get_multivar", enc + "CaseInsensitiveOrderedMultiDict"],
               bounds="every sequence of 4 operations (as C20b.sequences)", outside="longer", time_budget=6000, tiers=("thorough",)),
        KCheck("C20b.sequences", h_sequences, parts=[{"steps": 3, "op0": o, "key0": k} for o in range(3) for k in range(3)],
               encoded=[enc + "ConfigDict.set/add/remove/get_multivar", enc + "CaseInsensitiveOrderedMultiDict (__setitem__, __delitem__, get_all)",
                        enc + "ConfigFile.write_to_file/from_file"],
               bounds="every sequence of 3 operations (4 thorough) from {set, add, remove} over the keys fetch / Fetch (one variable, two spellings) / url x 3 values in one subsection; the live object "
                      "after every step and the re-read file are compared with an ordered list model (multi-valued keys keep order)",
               outside="longer sequences; several sections", tiers=q),
    ]
