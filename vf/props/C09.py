"""C09 — a crash at any instant leaves a repository that opens and is consistent."""
from __future__ import annotations

import os
import shutil

from vf.common import KCheck
from vf.interpose import Interposer, Crash, scratch

from dulwich.repo import Repo
from dulwich.objects import Blob, Tree, Commit
import dulwich.gc as GC

PROPERTY = "C09"
WHO = b"V <v@v>"
BR = b"refs/heads/master"


def _mkrepo(d, packed):
    r = Repo.init(d)
    wt = r.get_worktree()
    ids = []
    for i in range(2):
        b = Blob.from_string(b"content %d\n" % i)
        t = Tree()
        t.add(b"f", 0o100644, b.id)
        r.object_store.add_object(b)
        r.object_store.add_object(t)
        ids.append(wt.commit(message=b"c%d" % i, committer=WHO, author=WHO, tree=t.id, commit_timestamp=100 + i,
                             commit_timezone=0, author_timestamp=100 + i, author_timezone=0))
    global BR
    BR = r.refs.follow(b"HEAD")[0][-1]
    r.refs[b"refs/heads/side"] = ids[0]
    r.refs[b"refs/tags/v1"] = ids[0]
    # one unreachable loose object (gc fodder)
    r.object_store.add_object(Blob.from_string(b"garbage\n"))
    if packed:
        r.object_store.pack_loose_objects()
        r.refs[b"refs/heads/side"] = ids[1]
        r.refs.pack_refs(all=True)
        # refs/heads/side: a loose value shadowing an older packed one (the state in which the order of the two removals
        # of a deletion matters)
        r.refs[b"refs/heads/side"] = ids[0]
    return r, ids


def _snapshot_state(r):
    """pre-state facts: ref values and the raw bytes of every object reachable from the refs"""
    refs = dict(r.refs.as_dict())
    reach = {}
    todo = [v for v in refs.values()]
    while todo:
        s = todo.pop()
        if s in reach:
            continue
        o = r.object_store[s]
        reach[s] = (o.type_name, o.as_raw_string())
        if isinstance(o, Commit):
            todo.append(o.tree)
            todo += list(o.parents)
        elif isinstance(o, Tree):
            todo += [e.sha for e in o.iteritems()]
    return refs, reach


# ---- operations: (name, function(repo, ids) -> dict of expected new ref values {ref: sha or None})
def op_add_object(r, ids):
    r.object_store.add_object(Blob.from_string(b"a brand new blob\n"))
    return {}


def op_set_if_equals(r, ids):
    r.refs.set_if_equals(BR, ids[1], ids[0])
    return {BR: ids[0], b"HEAD": ids[0]}


def op_add_if_new(r, ids):
    r.refs.add_if_new(b"refs/heads/fresh", ids[1])
    return {b"refs/heads/fresh": ids[1]}


def op_remove(r, ids):
    r.refs.remove_if_equals(b"refs/heads/side", ids[0])
    return {b"refs/heads/side": None}


def op_pack_refs(r, ids):
    r.refs.pack_refs(all=True)
    return {}


def op_symref(r, ids):
    r.refs.set_symbolic_ref(b"HEAD", b"refs/heads/side")
    return {b"HEAD": ids[0]}


def op_index_write(r, ids):
    idx = r.open_index()
    from dulwich.index import IndexEntry
    idx[b"f"] = IndexEntry(ctime=(1, 0), mtime=(1, 0), dev=0, ino=0, mode=0o100644, uid=0, gid=0, size=10,
                           sha=r[r[ids[1]].tree][b"f"][1], flags=0, extended_flags=0)
    idx.write()
    return {}


def op_config_write(r, ids):
    c = r.get_config()
    c.set((b"user",), b"name", b"Somebody")
    c.write_to_path()
    return {}


def op_commit(r, ids):
    b = Blob.from_string(b"third\n")
    t = Tree()
    t.add(b"f", 0o100644, b.id)
    r.object_store.add_object(b)
    r.object_store.add_object(t)
    new = r.get_worktree().commit(message=b"c3", committer=WHO, author=WHO, tree=t.id, commit_timestamp=200,
                                  commit_timezone=0, author_timestamp=200, author_timezone=0)
    return {BR: new, b"HEAD": new}


def op_add_pack(r, ids):
    b = Blob.from_string(b"packed blob\n")
    t = Tree()
    t.add(b"g", 0o100644, b.id)
    r.object_store.add_objects([(b, None), (t, None)])
    return {}


def op_pack_loose(r, ids):
    r.object_store.pack_loose_objects()
    return {}


def op_repack(r, ids):
    r.object_store.repack()
    return {}


def op_gc(r, ids):
    GC.garbage_collect(r, prune=True, grace_period=None)
    return {}


OPS = [op_add_object, op_set_if_equals, op_add_if_new, op_remove, op_pack_refs, op_symref, op_index_write,
       op_config_write, op_commit, op_add_pack, op_pack_loose, op_repack, op_gc]


def _check_image(eng, img, pre_refs, reach, expect, opname, k, where, strict_values=True):
    tag = f"[{opname} crash before step {k}: {where}]"
    try:
        r = Repo(img)
    except Exception as e:
        eng.fail(f"{tag} repository does not reopen: {type(e).__name__}: {e}")
        return
    try:
        try:
            refs = dict(r.refs.as_dict())
        except Exception as e:
            eng.fail(f"{tag} refs unreadable: {type(e).__name__}: {e}")
            return
        names = set(pre_refs) | set(expect) | set(refs)
        for n in sorted(names):
            old = pre_refs.get(n)
            new = expect.get(n, old) if n in expect else old
            got = refs.get(n)
            if strict_values:
                eng.prove(got in (old, new), f"{tag} ref {n!r} holds its old or its new value (got {got!r})")
            if got is not None:
                try:
                    o = r.object_store[got]
                    eng.prove(o.id == got, f"{tag} object named by ref {n!r} re-hashes to its name")
                    if isinstance(o, Commit):
                        for e_ in r.object_store[o.tree].iteritems():
                            if e_.mode != 0o160000:
                                r.object_store[e_.sha]
                except KeyError:
                    eng.fail(f"{tag} ref {n!r} names an object that is missing")
                except Exception as e:
                    eng.fail(f"{tag} object of ref {n!r} unreadable: {type(e).__name__}: {e}")
        for s, (tn, raw) in reach.items():
            try:
                o = r.object_store[s]
                eng.prove(o.type_name == tn and o.as_raw_string() == raw, f"{tag} previously reachable object intact")
            except Exception as e:
                eng.fail(f"{tag} previously reachable object {s!r} unreadable: {type(e).__name__}: {e}")
        try:
            list(r.open_index())
        except Exception as e:
            eng.fail(f"{tag} index unreadable: {type(e).__name__}: {e}")
        try:
            r.get_config().sections()
        except Exception as e:
            eng.fail(f"{tag} config unreadable: {type(e).__name__}: {e}")
    finally:
        r.close()


def h_crash(eng, opk=0, packed=False, kmax=60, powerloss=False):
    """process crash immediately before the k-th file-system call of the operation (symbolic k): the directory
    image at that instant must reopen and be consistent.  powerloss=True: core.fsyncObjectFiles is on and, in the
    image, every file written by the operation keeps only what had been fsynced (symbolically per file, for the
    first 3 such files: lost or not)"""
    k = eng.choice("crash_before_step", kmax)
    d = scratch("c09")
    img = d + ".img"
    try:
        r, ids = _mkrepo(d, packed)
        if powerloss:
            c = r.get_config()
            c.set((b"core",), b"fsyncObjectFiles", True)
            c.write_to_path()
            r.close()
            r = Repo(d)
        pre_refs, reach = _snapshot_state(r)
        op = OPS[opk]
        taken = []

        def hook(i, name, path):
            if i == k:
                shutil.copytree(d, img, symlinks=True)
                taken.append((name, path))
                raise Crash()
        expect = {}
        with Interposer(d, hook) as ip:
            try:
                expect = op(r, ids)
            except Crash:
                pass
            nsteps = ip.n
        r.close()
        if not taken:
            eng.assume(False)            # the operation has fewer than k+1 steps
        if powerloss:
            nbit = 0
            for pth in sorted(ip.written):
                ipath = os.path.join(os.fsencode(img), pth[len(os.fsencode(d)) + 1:])
                if not os.path.isfile(ipath):
                    continue
                with open(ipath, "rb") as fh:
                    cur = fh.read()
                dur = ip.durable.get(pth)
                if dur == cur:
                    continue
                lost = True
                if nbit < 3:
                    lost = bool(eng.choice(f"lost{nbit}", 2))
                    nbit += 1
                if lost:
                    with open(ipath, "wb") as fh:
                        fh.write(dur or b"")
        if not expect:
            # the operation was cut short: learn its intended effect from an uninterrupted run on a fresh copy
            d2 = scratch("c09b")
            try:
                r2, ids2 = _mkrepo(d2, packed)
                expect = op(r2, ids2)
                r2.close()
            finally:
                shutil.rmtree(d2, ignore_errors=True)
        where = f"{taken[0][0]} {os.fsdecode(taken[0][1])[len(d):] if taken[0][1] else ''}"
        _check_image(eng, img, pre_refs, reach, expect, op.__name__, k, where)
        # the user repeats the interrupted command on what the crash left behind: whether it now succeeds or stops with an
        # error (e.g. a stale lock), the repository must still be consistent
        r3 = Repo(img)
        try:
            try:
                op(r3, ids)
                retried = "succeeded"
            except Exception as e:
                retried = f"stopped with {type(e).__name__}"
        finally:
            r3.close()
        _check_image(eng, img, pre_refs, reach, expect, f"{op.__name__}, then repeated ({retried})", k, where, strict_values=False)
    finally:
        shutil.rmtree(d, ignore_errors=True)
        shutil.rmtree(img, ignore_errors=True)


def checks(tier):
    q = ("quick", "thorough")
    parts = [{"opk": i, "packed": p} for i in range(len(OPS)) for p in (False, True)]
    enc = ["dulwich.object_store.DiskObjectStore.add_object/add_objects/add_pack/_complete_pack/pack_loose_objects/repack",
           "dulwich.refs.DiskRefsContainer.set_if_equals/add_if_new/remove_if_equals/pack_refs/add_packed_refs/set_symbolic_ref",
           "dulwich.index.Index.write", "dulwich.config.ConfigFile.write_to_path", "dulwich.worktree.WorkTree.commit",
           "dulwich.gc.garbage_collect", "dulwich.file._GitFile", "dulwich.repo.Repo.__init__ (re-open)"]
    return [
        KCheck("C09a.process_crash", h_crash, parts=parts, encoded=enc,
               bounds="13 operations x loose/packed starting repository (2 commits, 3 refs, HEAD, 1 unreachable object); crash "
                      "immediately before any of the first 60 file-system calls (open-for-write, write, flush, fsync, close, "
                      "rename, unlink, mkdir, rmdir, chmod, link) at a symbolic index; process-crash model: what reached the "
                      "kernel survives, Python-buffered data is lost",
               outside="power-loss model (unsynced data missing) — see C09b; torn writes inside one write(2); operations longer than 60 calls",
               assumptions=["the image is a recursive copy of the directory taken at the crash instant"],
               time_budget=1500, tiers=q),
        KCheck("C09b.power_loss", h_crash, parts=[dict(p, powerloss=True) for p in parts], encoded=enc,
               bounds="as C09a with core.fsyncObjectFiles=true; additionally, in the image every file written by the operation "
                      "and not fsynced since keeps only its last-fsynced content (zero length if never synced): symbolic "
                      "lost/kept bit for the first 3 such files, lost for the rest",
               outside="directory-entry durability (rename ordering across directories), torn sectors",
               time_budget=1500, tiers=q),
    ]
