"""C08 — ref updates are atomic compare-and-swap; concurrent commits are never lost."""
from __future__ import annotations

import os
import shutil

from greenlet import greenlet, getcurrent

from vf.common import KCheck
from vf.interpose import Interposer, scratch
from vf.props.C16 import MapModel, _build_disk, A, B, ZERO

import dulwich.refs as R
from dulwich.file import FileLocked
from dulwich.repo import Repo
from dulwich.objects import Blob, Tree, Commit

PROPERTY = "C08"
C = b"c" * 40
REF = b"refs/heads/r"
TAG = b"refs/tags/t"
HEAD = b"HEAD"

INIT = [(None, None), (A, None), (None, A), (B, A)]      # (loose, packed) for REF
K1MAX, K2MAX = 26, 13


class Sched:
    """two actors as greenlets; actor `first` is preempted before its k1-th file-system call, then the other runs
    and is preempted before its k2-th call (or runs to completion), then both finish"""

    def __init__(self, first, k1, k2):
        self.first, self.k1, self.k2 = first, k1, k2
        self.count = {}
        self.main = getcurrent()
        self.actor_of = {}
        self.preempted = set()

    def hook(self, i, name, path):
        g = getcurrent()
        a = self.actor_of.get(g)
        if a is None:
            return
        c = self.count.get(a, 0)
        self.count[a] = c + 1
        if a not in self.preempted:
            k = self.k1 if a == self.first else self.k2
            if k is not None and c == k:
                self.preempted.add(a)
                self.main.switch()

    def run(self, fns):
        res = [None, None]
        gs = []
        for idx, fn in enumerate(fns):
            def body(idx=idx, fn=fn):
                try:
                    res[idx] = ("ok", fn())
                except FileLocked:
                    res[idx] = ("locked", None)
                except (OSError, KeyError, ValueError) as e:
                    res[idx] = ("error", f"{type(e).__name__}: {e}")
            g = greenlet(body)
            gs.append(g)
            self.actor_of[g] = idx
        order = [self.first, 1 - self.first, self.first, 1 - self.first]
        for a in order:
            if not gs[a].dead:
                gs[a].switch()
        for g in gs:
            while not g.dead:
                g.switch()
        return res


def _ops():
    """(label, model function, real function) — real functions take a DiskRefsContainer"""
    ops = []
    for old in (None, A, B, ZERO):
        for new in (B, C):
            ops.append((f"set_if_equals({old and old[:1]},{new[:1]})",
                        lambda m, old=old, new=new: m.set_if_equals(REF, old, new),
                        lambda c, old=old, new=new: c.set_if_equals(REF, old, new)))
    ops.append(("add_if_new(C)", lambda m: m.add_if_new(REF, C), lambda c: c.add_if_new(REF, C)))
    for old in (None, A, B):
        ops.append((f"remove_if_equals({old and old[:1]})", lambda m, old=old: m.remove_if_equals(REF, old),
                    lambda c, old=old: c.remove_if_equals(REF, old)))
    ops.append(("pack_refs", lambda m: None, lambda c: c.pack_refs(all=True)))
    ops.append(("read", lambda m: m.follow(REF)[1], lambda c: _get(c, REF)))
    ops.append(("as_dict", lambda m: m.as_dict().get(REF), lambda c: c.as_dict().get(REF)))
    ops.append(("read_head", lambda m: m.follow(HEAD)[1], lambda c: _get(c, HEAD)))
    return ops


def _get(c, name):
    try:
        return c[name]
    except KeyError:
        return None


OPS = _ops()


def _norm(label, v):
    if label == "pack_refs":
        return None
    return v


def h_pair(eng, init=1, opa=0, two=True):
    """two actors, one operation each on the same ref, interleaved at file-system-call granularity with <= 2
    preemptions at symbolic positions: results and final refs equal one of the two sequential orders on the
    map model (an actor that hits the other's lock gets FileLocked and has no effect)"""
    opb = eng.choice("op_b", len(OPS))
    first = eng.choice("first", 2)
    k1 = eng.choice("preempt_first_at", K1MAX)
    k2c = eng.choice("preempt_second_at", K2MAX + 1) if two else K2MAX
    k2 = None if k2c == K2MAX else k2c
    loose, packed = INIT[init]
    st = {REF: (loose, packed), TAG: (A, None), HEAD: (b"ref: " + REF, None)}
    if eng.known("C08-packrefs-vs-delete"):
        labs = (OPS[opa][0], OPS[opb][0])
        eng.assume(not ("pack_refs" in labs and any(l.startswith("remove_if_equals") for l in labs)))
    d = scratch("c08")
    try:
        _build_disk(d, st)
        la, ma, ra = OPS[opa]
        lb, mb, rb = OPS[opb]
        ca, cb = R.DiskRefsContainer(d), R.DiskRefsContainer(d)
        s = Sched(first, k1, k2)
        with Interposer(d, s.hook, wrap_reads=True) as ip:
            res = s.run([lambda: ra(ca), lambda: rb(cb)])
        eng.assume(s.count.get(first, 0) > k1)          # the preemption point exists
        if k2 is not None:
            eng.assume(s.count.get(1 - first, 0) > k2)
        final = R.DiskRefsContainer(d)
        fin = (_get(final, REF), _get(final, HEAD), _get(final, TAG))
        outcomes = []
        for order in ((0, 1), (1, 0)):
            m = MapModel(st)
            want = [None, None]
            ok = True
            for who in order:
                lab, mf = (la, ma) if who == 0 else (lb, mb)
                if res[who][0] in ("locked", "error"):
                    want[who] = res[who]                  # a loser that got an error must have had no effect
                    continue
                w = mf(m)
                want[who] = ("ok", _norm(lab, w))
            got = [(r[0], _norm(l, r[1])) if r[0] == "ok" else r for r, l in zip(res, (la, lb))]
            mfin = (m.follow(REF)[1], m.follow(HEAD)[1], m.follow(TAG)[1])
            outcomes.append((want, mfin))
            if got == want and fin == mfin:
                break
        else:
            eng.fail(f"not linearizable: A={la} B={lb} init={INIT[init]} first={'AB'[first]} k1={k1} k2={k2} "
                     f"results={res} final={fin} sequential orders would give {outcomes}")
        eng.prove(not [f for dp, dn, fn in os.walk(d) for f in fn if f.endswith(".lock")], "no lock file left behind")
        eng.prove(True, "linearizable")
    finally:
        shutil.rmtree(d, ignore_errors=True)


# ------------------------------------------------------------------ lost commits
WHO = b"V <v@v>"


def _commit(repo, n):
    b = Blob.from_string(b"data %d\n" % n)
    t = Tree()
    t.add(b"f", 0o100644, b.id)
    repo.object_store.add_object(b)
    repo.object_store.add_object(t)
    return repo.get_worktree().commit(message=b"m%d" % n, committer=WHO, author=WHO, tree=t.id, commit_timestamp=100 + n,
                                      commit_timezone=0, author_timestamp=100 + n, author_timezone=0)


def h_commits(eng, packed=False, two=True):
    """two actors commit to the same branch through the work-tree API, interleaved with <= 2 preemptions: every commit
    reported as successful is contained in the final branch history"""
    first = eng.choice("first", 2)
    k1 = eng.choice("preempt_first_at", 40)
    k2c = eng.choice("preempt_second_at", 21) if two else 20
    k2 = None if k2c == 20 else k2c * 2
    d = scratch("c08c")
    try:
        r0 = Repo.init(d)
        base = _commit(r0, 0)
        if packed:
            r0.refs.pack_refs(all=True)
        r0.close()
        ra, rb = Repo(d), Repo(d)
        s = Sched(first, k1, k2)
        from dulwich.errors import CommitError
        with Interposer(d, s.hook, wrap_reads=True) as ip:
            def mk(repo, n):
                def f():
                    try:
                        return _commit(repo, n)
                    except CommitError:
                        return None
                return f
            res = s.run([mk(ra, 1), mk(rb, 2)])
        eng.assume(s.count.get(first, 0) > k1)
        if k2 is not None:
            eng.assume(s.count.get(1 - first, 0) > k2)
        ra.close()
        rb.close()
        rf = Repo(d)
        try:
            tip = rf.refs[b"HEAD"]
            hist = set()
            todo = [tip]
            while todo:
                c = todo.pop()
                if c in hist:
                    continue
                hist.add(c)
                todo += list(rf[c].parents)
            for i, r in enumerate(res):
                if r[0] == "ok" and r[1] is not None:
                    eng.prove(r[1] in hist, f"commit reported successful by actor {'AB'[i]} is in the final history "
                              f"(first={'AB'[first]} k1={k1} k2={k2} results={res} tip={tip})")
            eng.prove(base in hist, "the base commit is still in the history")
        finally:
            rf.close()
    finally:
        shutil.rmtree(d, ignore_errors=True)


def checks(tier):
    q = ("quick", "thorough")
    t = ("thorough",)
    r = "dulwich.refs.DiskRefsContainer."
    quick_ops = [i for i, (l, _, _) in enumerate(OPS)]
    return [
        KCheck("C08a.pair_linearizable_1", h_pair,
               parts=[{"init": i, "opa": a, "two": False} for i in (1, 2, 3) for a in quick_ops],
               encoded=[r + "set_if_equals", r + "add_if_new", r + "remove_if_equals", r + "pack_refs/_add_packed_refs",
                        r + "_remove_packed_ref", r + "get_packed_refs/read_loose_ref/follow/as_dict", "dulwich.file._GitFile"],
               bounds="as C08a.pair_linearizable with <= 1 preemption (one actor is interrupted before any one of its "
                      "file-system calls, the other runs to completion, the first resumes)",
               outside="2 preemptions (thorough tier)", time_budget=2400, tiers=("quick",)),
        KCheck("C08a.pair_linearizable", h_pair,
               parts=[{"init": i, "opa": a} for i in (1, 2, 3) for a in quick_ops],
               encoded=[r + "set_if_equals", r + "add_if_new", r + "remove_if_equals", r + "pack_refs/_add_packed_refs",
                        r + "_remove_packed_ref", r + "get_packed_refs/read_loose_ref/follow/as_dict", "dulwich.file._GitFile"],
               bounds="2 actors with separate container objects on one real directory; each runs one of 16 operations on the "
                      "same ref (every pair); ref initially loose, packed or loose-over-packed, HEAD attached to it; schedules "
                      "with <= 2 preemptions at symbolic file-system-call positions (reads included), either actor first",
               outside="3 actors; more than 2 preemptions; operations on different refs",
               assumptions=["POSIX file-system semantics (kernel, /dev/shm)", "map model = vf.props.C16.MapModel"],
               time_budget=6000, tiers=t),
        KCheck("C08b.commits_not_lost", h_commits, parts=[{"packed": p} for p in (False, True)],
               encoded=["dulwich.worktree.WorkTree.commit", r + "set_if_equals", r + "add_if_new"],
               bounds="2 actors (separate Repo objects) each committing once to the same branch, <= 2 preemptions at symbolic "
                      "positions within the first 40 calls, branch loose or packed",
               outside="3 actors; in-memory repositories (no file-system interleaving there)", time_budget=2400, tiers=q),
    ]


# ---------------------------------------------------------------------------------------------
# (c) pushes racing on one branch through the in-process transport: the loser gets an error, nothing is overwritten
_b08c = checks


def checks(tier):
    from vf.props.C06 import h_local_push
    q = ("quick", "thorough")
    return _b08c(tier) + [
        KCheck("C08c.push_race", h_local_push, parts=[{"atomic": a, "ncmd": 1} for a in (False, True)],
               encoded=["dulwich.client.LocalGitClient.send_pack", "dulwich.refs.DiskRefsContainer.set_if_equals/remove_if_equals"],
               bounds="a pusher creating, updating or deleting a branch while another actor creates, moves or deletes it between "
                      "the pusher's snapshot of the refs and its update (the harness of C06b.local_push, one command)",
               outside="see C06b", tiers=q),
    ]
