"""C10 — maintenance never loses reachable objects; only unreachable objects past the grace period disappear."""
from __future__ import annotations

import shutil
import types

from vf.common import KCheck
from vf.interpose import scratch
from vf.symrepo import build_graph, closure
from vf.ksym.core import And, Or, Not

from dulwich.repo import Repo
import dulwich.gc as GC

PROPERTY = "C10"


def _mk(eng, layout=True, ncommits=3, fix=None):
    """real bare repository with a symbolic object graph, symbolic storage layout and symbolic refs
    (fix: partition constants for some of the choices)"""
    fix = fix or {}
    real_choice = eng.choice
    base = eng

    class _E:
        def __getattr__(self, n):
            return getattr(base, n)

        def choice(self, name, n):
            return fix[name] if name in fix else real_choice(name, n)

        def bool(self, name):
            return fix[name] if name in fix else base.bool(name)
    eng = _E()
    d = scratch("c10")
    r = Repo.init_bare(d)
    g = build_graph(eng, ncommits=ncommits)
    loose, packed = [], []
    # storage layout per object class (0 loose, 1 packed, 2 both): history objects vs. content objects
    w_hist = eng.choice("where_commits_tags", 3) if layout else 0
    w_cont = eng.choice("where_trees_blobs", 3) if layout else 0
    from dulwich.objects import Commit as _C, Tag as _T
    for i, o in enumerate(g["objs"]):
        where = w_hist if isinstance(o, (_C, _T)) else w_cont
        if where in (0, 2):
            loose.append(o)
        if where in (1, 2):
            packed.append(o)
    for o in loose:
        r.object_store.add_object(o)
    if packed:
        r.object_store.add_objects([(o, None) for o in packed])
    cs = g["commits"]
    roots = []
    # refs: a branch, a tag ref to the tag-of-tag, HEAD attached / detached elsewhere / absent
    bk = eng.choice("branch_at", len(cs) + 1)
    if bk < len(cs):
        r.refs[b"refs/heads/x"] = cs[bk].id
        roots.append(cs[bk].id)
    if eng.bool("has_tag_ref"):
        r.refs[b"refs/tags/t"] = g["tags"][1].id
        roots.append(g["tags"][1].id)
    hk = eng.choice("head", 3)
    if hk == 0:
        # detached HEAD at the newest commit (written directly: setting HEAD through the API would move the branch)
        with open(r.controldir() + "/HEAD", "wb") as f:
            f.write(cs[-1].id + b"\n")
        roots.append(cs[-1].id)
    elif hk == 1:
        r.refs.set_symbolic_ref(b"HEAD", b"refs/heads/x")
    else:
        r.refs.set_symbolic_ref(b"HEAD", b"refs/heads/unborn")
    return d, r, g, roots


def h_reachable(eng, ncommits=3):
    """find_reachable_objects / find_unreachable_objects = reference closure over refs and HEAD"""
    d, r, g, roots = _mk(eng, layout=False, ncommits=ncommits)
    try:
        want = closure(g["adj"], roots)
        got = GC.find_reachable_objects(r.object_store, r.refs)
        eng.prove(set(got) == want, "reachable set equals the closure of all refs and HEAD")
        un = GC.find_unreachable_objects(r.object_store, r.refs)
        eng.prove(set(un) == set(g["by_id"]) - want, "unreachable set is the complement within the store")
    finally:
        r.close()
        shutil.rmtree(d, ignore_errors=True)


def h_prune(eng, grace_none=False, head=None, branch_at=None):
    """prune_unreachable_objects with symbolic integer mtimes, clock and grace period: an object is deleted
    only if unreachable and older than the grace period; every unreachable loose object past it goes"""
    d, r, g, roots = _mk(eng, layout=False, ncommits=2, fix={k: v for k, v in (("head", head), ("branch_at", branch_at)) if v is not None})
    try:
        want = closure(g["adj"], roots)
        ids = sorted(g["by_id"])
        now = eng.int("now", 0, 2 ** 40)
        mt = {s: eng.int(f"mtime{i}", 0, 2 ** 40) for i, s in enumerate(ids)}
        grace = None if grace_none else eng.int("grace", 0, 2 ** 32)
        store = r.object_store
        store.get_object_mtime = lambda sha: mt[sha]
        saved = GC.time
        GC.time = types.SimpleNamespace(time=lambda: now)
        try:
            pruned, freed = GC.prune_unreachable_objects(store, r.refs, grace_period=grace)
        finally:
            GC.time = saved
        for s in ids:
            gone = s not in store
            eng.prove(gone == (s in pruned), "reported as pruned exactly the objects that are gone")
            if gone:
                eng.prove(s not in want, "nothing reachable is deleted")
                if grace is not None:
                    eng.prove(now - mt[s] >= grace, "a deleted object is at least as old as the grace period")
            elif s not in want:
                eng.prove(grace is not None and bool(True), "without a grace period every unreachable object goes")
                if grace is not None:
                    eng.prove(now - mt[s] < grace, "an unreachable object that stays is younger than the grace period")
            if s in want:
                o = store[s]
                eng.prove(o.as_raw_string() == g["by_id"][s].as_raw_string(), "reachable object unchanged")
    finally:
        r.close()
        shutil.rmtree(d, ignore_errors=True)


def h_maintain(eng, op="pack_loose", head=None, loose_named=False):
    """pack_loose_objects / repack / garbage_collect on every storage layout: every reachable object is the same
    (type, bytes) afterwards, also for a re-opened repository"""
    d, r, g, roots = _mk(eng, layout=True, ncommits=2, fix={"head": head} if head is not None else None)
    try:
        want = closure(g["adj"], roots)
        if loose_named:
            # the packs carry the names "git maintenance run --task=loose-objects" gives them (loose-<hash>.pack/.idx)
            import os as _os
            pd = _os.path.join(d, "objects", "pack")
            names = [f for f in _os.listdir(pd) if f.startswith("pack-")]
            if not names:
                eng.assume(False)
            r.close()
            for f in names:
                _os.rename(_os.path.join(pd, f), _os.path.join(pd, "loose-" + f[len("pack-"):]))
            r = Repo(d)
        if eng.bool("midx_written_before"):
            if list(r.object_store.packs):
                r.object_store.write_midx()
            else:
                eng.assume(False)
        # a second, long-lived reader (another process) that has so far only asked whether objects exist
        reader = Repo(d)
        for s_ in sorted(want):
            if s_ in g["by_id"]:
                eng.prove(s_ in reader.object_store, "reader sees every reachable object before the operation")
        if op == "pack_loose":
            r.object_store.pack_loose_objects()
        elif op == "repack":
            r.object_store.repack()
        elif op == "gc0":
            GC.garbage_collect(r, prune=True, grace_period=None)
        elif op == "prune0":
            r.object_store.prune(grace_period=0)
        elif op == "gc_grace0":
            GC.garbage_collect(r, prune=True, grace_period=0)
        elif op == "gc_default":
            GC.garbage_collect(r)
        else:
            GC.garbage_collect(r, prune=False)
        # a long-lived reader that so far only answered containment checks (served from the midx alone)
        for s in want:
            if s in g["by_id"]:
                eng.prove(s in r.object_store, f"reachable object reported present by the running process after {op}")
        for s_ in sorted(want):
            if s_ not in g["by_id"]:
                continue
            try:
                tn, raw = reader.object_store.get_raw(s_)
                eng.prove(raw == g["by_id"][s_].as_raw_string(), f"long-lived reader reads identical bytes after {op}")
            except KeyError as e:
                eng.fail(f"long-lived reader got a spurious missing object after {op}: {e!r}")
        reader.close()
        r.close()
        r = Repo(d)
        for s in want:
            if s not in g["by_id"]:
                continue
            try:
                o = r.object_store[s]
            except KeyError:
                eng.fail(f"reachable object {s!r} unreadable after {op}")
                continue
            eng.prove(o.type_name == g["by_id"][s].type_name and o.as_raw_string() == g["by_id"][s].as_raw_string(),
                      f"reachable object identical after {op}")
        if op == "gc0":
            for s in g["by_id"]:
                if s not in want:
                    eng.prove(s not in r.object_store, "gc with no grace period removes unreachable objects")
    finally:
        r.close()
        shutil.rmtree(d, ignore_errors=True)


def checks(tier):
    q = ("quick", "thorough")
    t = ("thorough",)
    return [
        KCheck("C10a.reachable", h_reachable, parts=[{"ncommits": 2}, {"ncommits": 3}],
               encoded=["dulwich.gc.find_reachable_objects", "dulwich.gc.find_unreachable_objects",
                        "dulwich.refs.DiskRefsContainer.allkeys/__getitem__"],
               bounds="every graph of 2-3 commits (all parent sets, each commit on either of two trees that share a subtree), "
                      "tag -> any commit and tag of tag; refs: branch at any commit or absent, tag ref or not, HEAD detached at "
                      "the newest commit / attached / unborn; real bare repository",
               outside="reflogs and index as roots (the property names refs and HEAD only); larger graphs", tiers=q),
        KCheck("C10b.prune_grace", h_prune,
               parts=[{"grace_none": gn, "head": h, "branch_at": b} for gn in (False, True) for h in range(3) for b in range(3)],
               encoded=["dulwich.gc.prune_unreachable_objects", "dulwich.object_store.DiskObjectStore.delete_loose_object"],
               bounds="graphs of 2 commits as above, all loose; object mtimes, the clock and the grace period are symbolic integers "
                      "(every ordering and boundary equality)",
               outside="float mtimes (modelled as integers)",
               assumptions=["time.time() and get_object_mtime() replaced by symbolic integers"], max_decisions=900, tiers=q),
        KCheck("C10c.maintenance", h_maintain,
               parts=[{"op": o, "head": h} for o in ("pack_loose", "repack", "gc0", "gc_default", "gc_noprune") for h in range(3)] +
                     [{"op": o, "head": 1, "loose_named": ln} for o in ("prune0", "gc_grace0", "gc_default") for ln in (False, True)],
               encoded=["dulwich.object_store.PackBasedObjectStore.pack_loose_objects/repack", "dulwich.gc.garbage_collect",
                        "dulwich.object_store.DiskObjectStore (re-open, lookup)"],
               bounds="graphs of 2 commits as above; optionally a multi-pack-index written before the operation (left stale by it); history objects (commits, tags) and content objects (trees, blobs) each symbolically loose / packed / both; refs as above; also prune / gc with a zero grace period and packs named loose-<hash> as git maintenance writes them",
               outside="alternates; more than one pre-existing pack (thorough)", time_budget=2400, tiers=q),
    ]


# ---------------------------------------------------------------------------------------------
# (d) a reader running while another actor repacks never gets a spurious "missing object"
_b10 = checks


CALLS = {}


def h_concurrent_reader(eng, op="repack", two=False, kmax=140, k2max=40, first=0, warm=0):
    """two actors on one real repository: A reads every reachable object (separate Repo object, cold or warm pack
    cache), B runs a maintenance operation; interleaved at file-system-call granularity (reads included) with
    <= 1 (quick) / 2 preemptions at symbolic positions: A gets every object, byte-identical, and never a KeyError"""
    from greenlet import getcurrent
    from vf.interpose import Interposer
    from vf.props.C08 import Sched
    kmax = kmax if first == 1 else min(kmax, 40)
    d, r, g, roots = _mk(eng, layout=True, ncommits=2, fix={"head": 1, "has_tag_ref": True, "branch_at": 1, "c0_tree": 0,
                                                             "c1_tree": 1, "c1_p0": True, "tag_target": 0})
    reader = None
    try:
        want = sorted(s for s in closure(g["adj"], roots) if s in g["by_id"])
        if eng.bool("midx_written_before"):
            if list(r.object_store.packs):
                r.object_store.write_midx()
            else:
                eng.assume(False)
        r.close()
        r = Repo(d)
        reader = Repo(d)
        # warm: 0 cold reader, 1 pack list loaded, 2 one object already read, 3 membership of every object probed
        if warm >= 1:
            list(reader.object_store.packs)
        if warm == 2:
            reader.object_store.get_raw(want[0])
        if warm == 3:
            # membership probed only: every pack index is loaded, no pack data file has been opened yet
            for s_ in want:
                s_ in reader.object_store
        # first: 0 = the reader is preempted first, 1 = the maintenance actor
        k1 = eng.choice("preempt_first_at", kmax)
        if two:
            k2 = eng.choice("preempt_second_at", k2max // 3) * 3      # every third call of the other actor
        else:
            k2 = None
        got = {}

        def read_all():
            for s in want:
                try:
                    got[s] = reader.object_store.get_raw(s)[1]
                except KeyError as e:
                    got[s] = e
            return None

        def maintain():
            if op == "pack_loose":
                r.object_store.pack_loose_objects()
            elif op == "repack":
                r.object_store.repack()
            elif op == "gc0":
                GC.garbage_collect(r, prune=True, grace_period=None)
            else:
                GC.garbage_collect(r)
            return None
        s = Sched(first, k1, k2)
        MUT = ("open", "rename", "replace", "remove", "unlink", "rmdir", "mkdir", "link", "chmod")

        def hook(i, name, path):
            # partial-order reduction: what the reader can observe only changes at the maintenance actor's calls that
            # create, rename or remove directory entries, so only those are preemption points of that actor; every
            # call of the reader (reads included) is one
            if s.actor_of.get(getcurrent()) == 1 and name not in MUT:
                return
            s.hook(i, name, path)
        with Interposer(d, hook, wrap_reads=True):
            res = s.run([read_all, maintain])
        CALLS[(op, first)] = max(CALLS.get((op, first), 0), s.count.get(first, 0))
        eng.assume(s.count.get(first, 0) > k1)
        if k2 is not None:
            eng.assume(s.count.get(1 - first, 0) > k2)
        tag = f"[{op}; reader_cache={warm} first={'reader' if first == 0 else 'maintenance'} k1={k1} k2={k2}]"
        eng.prove(res[1][0] == "ok", f"{tag} the maintenance operation itself completes: {res[1]}")
        eng.prove(res[0][0] == "ok", f"{tag} the reader completes: {res[0]}")
        for sha in want:
            v = got.get(sha)
            if isinstance(v, KeyError):
                eng.fail(f"{tag} spurious missing object {sha[:8]!r} ({g['by_id'][sha].type_name!r}) for a reader while the "
                         f"object exists throughout")
            else:
                eng.prove(v == g["by_id"][sha].as_raw_string(), f"{tag} reader got identical bytes")
    finally:
        if reader is not None:
            reader.close()
        r.close()
        shutil.rmtree(d, ignore_errors=True)


def checks(tier):
    q = ("quick", "thorough")
    ops = ("pack_loose", "repack", "gc0", "gc_default")
    enc = ["dulwich.object_store.DiskObjectStore.get_raw/_update_pack_cache/_iter_loose/_get_loose_object",
           "dulwich.object_store.PackBasedObjectStore.pack_loose_objects/repack", "dulwich.gc.garbage_collect", "dulwich.pack.Pack"]
    por = ["partial-order reduction: the reader's observations change only at the maintenance actor's create/rename/remove "
           "calls, so only those are its preemption points"]
    bound_1 = ("graph of 2 commits (branch, tag ref, HEAD attached), history and content objects each loose / packed / both, "
               "optional multi-pack-index; a reader (%s) reads all reachable objects while %s runs; 1 preemption at a symbolic "
               "position: any of the reader's first 40 file-system calls (reads included) or any of the maintenance actor's "
               "first 64 calls that create, rename or remove a directory entry")
    return _b10(tier) + [
        KCheck("C10d.concurrent_reader_1", h_concurrent_reader,
               parts=[{"op": o, "first": f, "warm": w, "kmax": 64} for o in ops[:3] for f in (0, 1) for w in (0, 2)], encoded=enc,
               bounds=bound_1 % ("cold, or one object already read", "pack_loose_objects / repack / gc without grace"),
               outside="2 preemptions (thorough); alternates; several readers", assumptions=por, time_budget=2400, tiers=("quick",)),
        KCheck("C10d.concurrent_reader_probed", h_concurrent_reader,
               parts=[{"op": o, "first": f, "warm": 3, "kmax": 64} for o in ("repack", "gc0") for f in (0, 1)], encoded=enc,
               bounds=bound_1 % ("that has probed `sha in store` for every object, so every pack index is loaded and no pack data "
                                 "file is open", "repack / gc without grace"),
               outside="2 preemptions; alternates; several readers", assumptions=por, time_budget=2400, tiers=q),
        KCheck("C10d.concurrent_reader_1t", h_concurrent_reader,
               parts=[{"op": o, "first": f, "warm": w, "kmax": 64} for o in ops for f in (0, 1) for w in (0, 1, 2)], encoded=enc,
               bounds=bound_1 % ("cold, pack list loaded, or one object already read", "pack_loose_objects / repack / gc without "
                                 "grace / default gc"),
               outside="alternates; several readers", assumptions=por, time_budget=2400, tiers=("thorough",)),
        KCheck("C10d.concurrent_reader", h_concurrent_reader,
               parts=[{"op": o, "two": True, "first": f, "warm": w} for o in ("pack_loose", "repack") for f in (0, 1) for w in (0, 2)],
               encoded=enc,
               bounds="pack_loose_objects and repack, cold or warm reader, exactly 2 preemptions: the first at any of the first 140 "
                      "preemption points of one actor (as in C10d.concurrent_reader_1), the second at every third of the first 39 of the other",
               outside="3 or more preemptions; alternates; several readers", time_budget=6000, tiers=("thorough",)),
    ]


# ---------------------------------------------------------------------------------------------
# (e) another actor lands a pack (a push) while maintenance runs: nothing it brought in is lost
_b10e = checks


def h_concurrent_writer(eng, op="repack", kmax=400, layout=(1, 1)):
    """two actors: B repacks / collects garbage; A (a push arriving through another Repo object) adds a pack with a new
    commit and points a new branch at it, running to completion at a symbolic point of B's file-system-call sequence
    (reads included: B's decisions depend on what it lists): afterwards every object reachable from every ref is readable
    and intact, for a fresh process"""
    from greenlet import getcurrent
    from vf.interpose import Interposer
    from vf.props.C08 import Sched
    from dulwich.objects import Blob, Tree, Commit
    d, r, g, roots = _mk(eng, layout=True, ncommits=2, fix={"head": 1, "has_tag_ref": True, "branch_at": 1, "c0_tree": 0, "c1_tree": 1,
                                                             "c1_p0": True, "tag_target": 0, "where_commits_tags": layout[0],
                                                             "where_trees_blobs": layout[1]})
    try:
        want = sorted(s for s in closure(g["adj"], roots) if s in g["by_id"])
        r.close()
        r = Repo(d)
        pusher = Repo(d)
        nb = Blob.from_string(b"pushed blob\n")
        nt = Tree()
        nt.add(b"p", 0o100644, nb.id)
        nc = Commit()
        nc.tree = nt.id
        nc.parents = [g["commits"][1].id]
        nc.author = nc.committer = b"P <p@p>"
        nc.author_time = nc.commit_time = 5000
        nc.author_timezone = nc.commit_timezone = 0
        nc.message = b"pushed"
        k1 = eng.choice("push_arrives_before_call_div32", (kmax + 31) // 32) * 32 + eng.choice("push_arrives_before_call_mod32", 32)
        if op == "gc0" and eng.known("C10-gc-nograce-vs-push"):
            eng.assume(False)            # region of the known finding: pruning without a grace period while a writer is active

        def push():
            pusher.object_store.add_objects([(nb, None), (nt, None), (nc, None)])
            pusher.refs[b"refs/heads/pushed"] = nc.id

        def maintain():
            if op == "repack":
                r.object_store.repack()
            elif op == "pack_loose":
                r.object_store.pack_loose_objects()
            elif op == "gc0":
                GC.garbage_collect(r, prune=True, grace_period=None)
            else:
                GC.garbage_collect(r)
        s = Sched(1, k1, None)                     # actor 1 (maintenance) is preempted before its k1-th call; actor 0 then runs fully
        with Interposer(d, s.hook, wrap_reads=True):
            res = s.run([push, maintain])
        eng.assume(s.count.get(1, 0) > k1)
        r.close()
        pusher.close()
        tag = f"[{op}, layout {layout}; the push lands before call {k1} of the maintenance actor; results {res}]"
        eng.prove(res[0][0] == "ok" and res[1][0] == "ok", f"{tag} both actors complete")
        fresh = Repo(d)
        try:
            eng.prove(fresh.refs[b"refs/heads/pushed"] == nc.id, f"{tag} the pushed branch is there")
            for o in (nc, nt, nb):
                try:
                    got = fresh.object_store[o.id]
                    eng.prove(got.as_raw_string() == o.as_raw_string(), f"{tag} pushed {o.type_name.decode()} intact")
                except KeyError:
                    eng.fail(f"{tag} the pushed {o.type_name.decode()} {o.id[:8]!r}, reachable from refs/heads/pushed, is gone")
            for sha in want:
                try:
                    got = fresh.object_store[sha]
                    eng.prove(got.as_raw_string() == g["by_id"][sha].as_raw_string(), f"{tag} previously reachable object intact")
                except KeyError:
                    eng.fail(f"{tag} previously reachable object {sha[:8]!r} is gone")
        finally:
            fresh.close()
    finally:
        r.close()
        shutil.rmtree(d, ignore_errors=True)


def checks(tier):
    return _b10e(tier) + [
        KCheck("C10e.concurrent_writer", h_concurrent_writer,
               parts=[{"op": o, "kmax": k, "layout": l} for o, k in (("repack", 400), ("pack_loose", 400), ("gc0", 1000), ("gc_default", 1000))
                      for l in ((1, 1), (0, 1), (2, 2))],
               encoded=["dulwich.object_store.PackBasedObjectStore.repack/pack_loose_objects", "dulwich.gc.garbage_collect",
                        "dulwich.object_store.DiskObjectStore.add_objects/_complete_pack/_remove_pack", "dulwich.refs.DiskRefsContainer.__setitem__"],
               bounds="graph of 2 commits (all packed; history loose + contents packed; everything loose and packed); a push (3-object "
                      "pack + new branch) by a second Repo object runs to completion before any one of the first 400 (repack, "
                      "pack_loose_objects) / 1000 (gc) file-system calls of the maintenance actor, reads included",
               outside="the push itself interrupted by maintenance steps (two-sided interleaving); several pushes; gc with the grace "
                       "period disabled (known finding C10-gc-nograce-vs-push)", time_budget=2400,
               tiers=("quick", "thorough")),
    ]


# ---------------------------------------------------------------------------------------------
# (f) the grace period is judged on the real files: an unreachable object survives gc while ANY of its copies is young
import os as _os
import time as _time
_b10f = checks
_AGES = (None, 10, 30 * 86400)          # copy absent / written 10 s ago / written 30 days ago
_GRACE = 86400


def h_grace_copies(eng, op="gc"):
    """an unreachable blob X stored as a loose file and/or in up to two packs, each copy absent, 10 s old or 30 days old
    (real mtimes set with utime), next to a reachable commit; garbage_collect / prune_unreachable_objects with a one-day
    grace period (real get_object_mtime, real clock): X may only disappear if every copy of it is older than the grace
    period (a push or fetch whose pack landed seconds ago has not updated its ref yet - that is what the grace period is
    for); everything reachable stays"""
    from dulwich.objects import Blob, Tree, Commit
    d = scratch("c10g")
    r = Repo.init_bare(d)
    try:
        st = r.object_store
        x = Blob.from_string(b"unreachable\n")
        keep = Blob.from_string(b"kept\n")
        t = Tree()
        t.add(b"f", 0o100644, keep.id)
        c = Commit()
        c.tree = t.id
        c.parents = []
        c.author = c.committer = b"V <v@v>"
        c.author_time = c.commit_time = 1
        c.author_timezone = c.commit_timezone = 0
        c.message = b"m"
        for o in (keep, t, c):
            st.add_object(o)
        r.refs[b"refs/heads/main"] = c.id
        ages = {k: _AGES[eng.choice(k, 3)] for k in ("loose", "pack1", "pack2")}
        eng.assume(any(a is not None for a in ages.values()))
        now = _time.time()
        for i, k in enumerate(("pack1", "pack2")):
            if ages[k] is not None:
                known = {p._basename for p in st.packs}
                st.add_objects([(x, None), (Blob.from_string(b"companion %d\n" % i), None)])
                for p in st.packs:
                    if p._basename not in known:
                        for ext in (".pack", ".idx"):
                            _os.utime(p._basename + ext, (now - ages[k], now - ages[k]))
        if ages["loose"] is not None:
            st.add_object(x)
            _os.utime(st._get_shafile_path(x.id), (now - ages["loose"], now - ages["loose"]))
        r.close()
        r = Repo(d)
        if op == "gc":
            GC.garbage_collect(r, grace_period=_GRACE)
        else:
            GC.prune_unreachable_objects(r.object_store, r.refs, grace_period=_GRACE)
        r.close()
        r = Repo(d)
        young = [k for k, a in ages.items() if a is not None and a < _GRACE]
        if young:
            eng.prove(x.id in r.object_store, f"unreachable object with a copy younger than the grace period ({young}: ages {ages}) "
                                              f"survives {op}")
        for o in (keep, t, c):
            eng.prove(o.id in r.object_store and r.object_store[o.id].as_raw_string() == o.as_raw_string(), "reachable objects stay")
    finally:
        r.close()
        shutil.rmtree(d, ignore_errors=True)


def checks(tier):
    q = ("quick", "thorough")
    return _b10f(tier) + [
        KCheck("C10f.grace_copies", h_grace_copies, parts=[{"op": "gc"}, {"op": "prune"}],
               encoded=["dulwich.gc.garbage_collect", "dulwich.gc.prune_unreachable_objects",
                        "dulwich.object_store.DiskObjectStore.get_object_mtime", "dulwich.object_store.PackBasedObjectStore.repack"],
               bounds="an unreachable blob with a loose copy and copies in up to two packs, each copy absent / 10 s old / 30 days old "
                      "(every combination, real file mtimes); one-day grace period; garbage_collect and prune_unreachable_objects",
               outside="ages near the boundary (C10b decides the comparison itself on symbolic integers); alternates", tiers=q),
    ]
