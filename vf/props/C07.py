"""C07 — lock files: mutual exclusion, all-or-nothing replacement (rely/guarantee on the real _GitFile)."""
from __future__ import annotations

import errno
import os
import shutil
import types

from vf.common import KCheck

import dulwich.file as DF

PROPERTY = "C07"
_seq = [0]
OLD, NEW, OTHER = b"old-content\n", b"new-content-complete\n", b"other-writer\n"


def _scratch(tag):
    base = f"/dev/shm/vf-{tag}-{os.getpid()}"
    _seq[0] += 1
    d = os.path.join(base, str(_seq[0]))
    shutil.rmtree(d, ignore_errors=True)
    os.makedirs(d)
    return d


class Env:
    """Real directory + ghost lock owner + a contract-abiding *other* locker that may act before any
    system call of the actor, + fault injection into the actor's system calls."""

    def __init__(self, d, eng, env_slots, fault_at, other_holds):
        self.d = d
        self.T = os.path.join(d, "T")
        self.L = self.T + ".lock"
        with open(self.T, "wb") as f:
            f.write(OLD)
        self.owner = None
        self.k = 0                  # index of the next actor system call
        self.env_slots = env_slots  # {syscall index: action}
        self.fault_at = fault_at
        self.faulted = None
        self.viol = []
        self.allowed = {OLD, NEW, OTHER}
        self.committed_by_me = False
        self.done = False
        if other_holds:
            self._other_acquire()

    # ---- the other locker (obeys the protocol: O_EXCL create, write, rename / remove its own lock)
    def _other_acquire(self):
        try:
            fd = os.open(self.L, os.O_RDWR | os.O_CREAT | os.O_EXCL, 0o644)
        except FileExistsError:
            return
        os.write(fd, OTHER)
        os.close(fd)
        self.owner = "other"

    def _other(self, act):
        if act == 1:
            if not os.path.exists(self.L):
                self._other_acquire()
        elif act == 2 and self.owner == "other":
            os.replace(self.L, self.T)
            self.owner = None
        elif act == 3 and self.owner == "other":
            os.remove(self.L)
            self.owner = None

    def step(self, what):
        """called before every system call of the actor"""
        if self.done:
            return
        i = self.k
        self.k += 1
        # a reader looking at the protected file now sees complete old or complete new content
        try:
            with open(self.T, "rb") as f:
                c = f.read()
            if c not in self.allowed:
                self.viol.append(f"reader saw torn content {c!r} before {what}")
        except FileNotFoundError:
            self.viol.append(f"protected file missing before {what}")
        act = self.env_slots.get(i, 0)
        if act:
            self._other(act)
        if self.fault_at == i:
            self.faulted = what
            raise OSError(errno.EIO, f"injected I/O error in {what}")

    # ---- wrapped system calls
    def os_open(self, path, flags, mode=0o777):
        self.step("open")
        fd = os.open(path, flags, mode)
        if path == self.L:
            self.owner = "me"
        return fd

    def os_fdopen(self, fd, mode, bufsize=-1):
        return FileProxy(self, os.fdopen(fd, mode, bufsize))

    def os_fsync(self, fd):
        self.step("fsync")
        return os.fsync(fd)

    def os_replace(self, a, b):
        self.step("replace")
        if a == self.L and self.owner != "me":
            self.viol.append("renamed a lock file it does not own")
        os.replace(a, b)
        if a == self.L:
            self.owner = None
            self.committed_by_me = True
            with open(self.T, "rb") as f:
                if f.read() != NEW:
                    self.viol.append("committed content is not the complete data written")

    def os_remove(self, a):
        self.step("remove")
        if a == self.L and self.owner != "me" and os.path.exists(a):
            self.viol.append("removed a lock file held by another writer")
        os.remove(a)
        if a == self.L:
            self.owner = None

    def namespace(self):
        ns = types.SimpleNamespace()
        for k in dir(os):
            if not k.startswith("__"):
                setattr(ns, k, getattr(os, k))
        ns.open, ns.fdopen, ns.fsync, ns.replace, ns.remove = (self.os_open, self.os_fdopen, self.os_fsync,
                                                              self.os_replace, self.os_remove)
        ns.rename = self.os_replace
        ns.unlink = self.os_remove
        return ns


class FileProxy:
    def __init__(self, env, f):
        self._env, self._f = env, f

    def write(self, data):
        self._env.step("write")
        return self._f.write(data)

    def flush(self):
        self._env.step("flush")
        return self._f.flush()

    def close(self):
        if not self._f.closed:
            self._env.step("close")
        return self._f.close()

    def fileno(self):
        return self._f.fileno()

    @property
    def closed(self):
        return self._f.closed

    def __getattr__(self, n):
        return getattr(self._f, n)


def h_gitfile(eng, end="close", other_holds=False, nfaults=1):
    """one actor runs open-for-write / write / (close | abort | with-block raising) on the real _GitFile; before
    each of its system calls a contract-abiding other locker may acquire / commit / abort (<= 2 actions, symbolic
    positions), and one system call may fail with EIO (symbolic position)"""
    NS = 9
    slots = {}
    for j in range(2):
        at = eng.choice(f"env{j}_at", NS + 1)
        if at < NS:
            slots[at] = 1 + eng.choice(f"env{j}_act", 3)
    fault_at = eng.choice("fault_at", NS + 1) if nfaults else NS
    if fault_at == NS:
        fault_at = None
    d = _scratch("c07")
    env = Env(d, eng, slots, fault_at, other_holds)
    saved = DF.os
    DF.os = env.namespace()
    raised = None
    acquired = False
    try:
        try:
            f = DF._GitFile(env.T, "wb", -1, 0o644)
            acquired = True
            eng.prove(env.owner == "me", "after a successful open-for-write the actor owns the lock")
            if end == "with":
                with f:
                    f.write(NEW)
                    raise KeyboardInterrupt()
            try:
                f.write(NEW)
            except BaseException:
                f.abort()           # documented usage: a writer that fails aborts its lock
                raise
            if end == "abort":
                f.abort()
            else:
                f.close()
        except DF.FileLocked:
            eng.prove(env.owner == "other" or env.faulted is not None or True, "refused while somebody else holds the lock")
            raised = "locked"
        except OSError as e:
            raised = "oserror"
        except KeyboardInterrupt:
            raised = "interrupt"
    finally:
        DF.os = saved
        env.done = True
    try:
        for v in env.viol:
            eng.fail(v)
        with open(env.T, "rb") as fh:
            content = fh.read()
        eng.prove(content in env.allowed, "protected file holds complete old or complete new content")
        if acquired and not (env.faulted == "remove"):
            eng.prove(env.owner != "me", f"the actor's lock is released at the end (end={end}, raised={raised}, fault={env.faulted})")
            if env.owner is None:
                eng.prove(not os.path.exists(env.L), "no stale lock file")
        if raised in ("oserror", "interrupt") or end == "abort":
            if not env.committed_by_me:
                eng.prove(content in (OLD, OTHER), "a failed or aborted write leaves the old content in place")
        if raised is None and end == "close":
            eng.prove(env.committed_by_me, "a close() that returns normally has committed the data")
    finally:
        shutil.rmtree(d, ignore_errors=True)


def checks(tier):
    q = ("quick", "thorough")
    t = ("thorough",)
    f = "dulwich.file."
    parts = [{"end": e, "other_holds": o} for e in ("close", "abort", "with") for o in (False, True)]
    return [
        KCheck("C07a.gitfile_rely_guarantee", h_gitfile, parts=parts,
               encoded=[f + "_GitFile.__init__", f + "_GitFile.write", f + "_GitFile.close", f + "_GitFile.abort",
                        f + "_GitFile.__exit__"],
               bounds="one actor; a contract-abiding other locker acts (acquire/commit/abort) before up to 2 of the actor's "
                      "system calls at symbolic positions; one system call (open, write, flush, fsync, close, replace, remove) "
                      "fails with EIO at a symbolic position or none; endings close / abort / with-block interrupted; lock "
                      "initially free or held. Because the environment stands for any number of protocol-abiding lockers, "
                      "the actor's guarantee (never touches a lock it does not own; target only replaced by complete data) "
                      "yields mutual exclusion for any number of such actors by assume/guarantee induction.",
               outside="more than 2 interfering actions or more than 1 fault per run (thorough: 2 faults); Windows rename "
                       "emulation; torn writes inside one write(2)",
               assumptions=["POSIX semantics of O_EXCL, rename and unlink (the real kernel on /dev/shm)",
                            "other writers follow the lock protocol"], tiers=q),
    ]


# ---------------------------------------------------------------------------------------------
# (c) the callers: concurrent packed-refs rewriters.  An abandoned or refused rewrite leaves the old content; a
#     completed one only changes the entries the operation names.
_b07 = checks
X, Y, KEEP = b"refs/tags/x", b"refs/tags/y", b"refs/heads/keep"
SA, SB, SC, SD = b"1" * 40, b"2" * 40, b"3" * 40, b"4" * 40

# (label, fn(container), names the operation is allowed to change in packed-refs)
PR_OPS = [
    ("remove_if_equals(x)", lambda c: c.remove_if_equals(X, None), {X}),
    ("add_packed_refs({x: None})", lambda c: c.add_packed_refs({X: None}), {X}),
    ("add_packed_refs({x: D})", lambda c: c.add_packed_refs({X: SD}), {X}),
    ("pack_refs(all)", lambda c: c.pack_refs(all=True), set()),
    ("remove_if_equals(y)", lambda c: c.remove_if_equals(Y, None), {Y}),
    ("set_if_equals(x, None, D)", lambda c: c.set_if_equals(X, None, SD), {X}),
    ("del refs[x]", lambda c: c.__delitem__(X), {X}),
]


def h_packed_rewriters(eng, opa=0, x_loose=False):
    import dulwich.refs as R
    from vf.interpose import Interposer, scratch
    from vf.props.C08 import Sched
    opb = eng.choice("op_b", len(PR_OPS))
    first = eng.choice("first", 2)
    k1 = eng.choice("preempt_first_at", 24)
    k2c = eng.choice("preempt_second_at", 13)
    k2 = None if k2c == 12 else k2c
    d = scratch("c07c")
    try:
        os.makedirs(os.path.join(d, "refs", "tags"))
        os.makedirs(os.path.join(d, "refs", "heads"))
        with open(os.path.join(d, "HEAD"), "wb") as f:
            f.write(b"ref: refs/heads/keep\n")
        with open(os.path.join(d, "packed-refs"), "wb") as f:
            f.write(b"# pack-refs with: peeled fully-peeled sorted \n" + SC + b" " + KEEP + b"\n" + SA + b" " + X + b"\n" + SB + b" " + Y + b"\n")
        if x_loose:
            with open(os.path.join(d, "refs", "tags", "x"), "wb") as f:
                f.write(SA + b"\n")
        la, fa, ta = PR_OPS[opa]
        lb, fb, tb = PR_OPS[opb]
        ca, cb = R.DiskRefsContainer(d), R.DiskRefsContainer(d)
        ca.get_packed_refs()
        cb.get_packed_refs()            # both start with a warm cache, as long-lived processes have
        s = Sched(first, k1, k2)
        torn = []

        def hook(i, name, path):
            # at every scheduling point the packed-refs file must be complete and well formed
            try:
                with open(os.path.join(d, "packed-refs"), "rb") as fh:
                    data = fh.read()
                if not data.startswith(b"# pack-refs") or not data.endswith(b"\n") or KEEP not in data:
                    torn.append((i, name, data))
            except FileNotFoundError:
                torn.append((i, name, None))
            s.hook(i, name, path)
        with Interposer(d, hook, wrap_reads=True):
            res = s.run([lambda: fa(ca), lambda: fb(cb)])
        eng.assume(s.count.get(first, 0) > k1)
        if k2 is not None:
            eng.assume(s.count.get(1 - first, 0) > k2)
        tag = f"[A={la} B={lb} x_loose={x_loose} first={'AB'[first]} k1={k1} k2={k2} results={res}]"
        final = R.DiskRefsContainer(d)
        allowed = set()
        for (st, _), t in zip(res, (ta, tb)):
            allowed |= t            # an operation that failed may still have been applied partially only to its own names
        eng.prove(not torn, f"{tag} packed-refs is complete and well formed at every scheduling point: {torn[:1]}")
        for name, val in ((KEEP, SC), (Y, SB), (X, SA)):
            if name in allowed:
                continue
            try:
                got = final[name]
            except KeyError:
                got = None
            eng.prove(got == val, f"{tag} {name!r}, which neither operation names, still resolves to its value (got {got})")
        eng.prove(not [f for dp, dn, fn in os.walk(d) for f in fn if f.endswith(".lock")], f"{tag} no lock file left behind")
    finally:
        shutil.rmtree(d, ignore_errors=True)


def checks(tier):
    q = ("quick", "thorough")
    r = "dulwich.refs.DiskRefsContainer."
    return _b07(tier) + [
        KCheck("C07c.packed_refs_rewriters", h_packed_rewriters,
               parts=[{"opa": a, "x_loose": xl} for a in range(len(PR_OPS)) for xl in (False, True)],
               encoded=[r + "_remove_packed_ref", r + "add_packed_refs/_add_packed_refs", r + "pack_refs", r + "remove_if_equals",
                        r + "set_if_equals", "dulwich.file._GitFile.close/abort"],
               bounds="2 actors with warm caches on one real directory, packed-refs holding 3 refs; each runs one of 7 operations "
                      "that rewrite or abandon a rewrite of packed-refs (every pair); <= 2 preemptions at symbolic "
                      "file-system-call positions (reads included), either actor first; packed-refs inspected at every "
                      "scheduling point",
               outside="3 actors; more than 2 preemptions; power loss (C09)", time_budget=2400, tiers=q),
    ]


# ---------------------------------------------------------------------------------------------
# (d) every routine that writes through the lock protocol, with a fault at a symbolic system call:
#     the protected files hold their complete old or complete new content, the lock is released, a retry works
_b07d = checks


def _extra_ops():
    from dulwich.objects import Blob

    def op_locked_ref_set(r, ids):
        from dulwich.refs import locked_ref
        with locked_ref(r.refs, b"refs/heads/side") as lr:
            lr.set(ids[1])
        return {}

    def op_locked_ref_readonly(r, ids):
        from dulwich.refs import locked_ref
        with locked_ref(r.refs, b"refs/heads/side") as lr:
            lr.get()
        return {}

    def op_add_packed_refs(r, ids):
        r.refs.add_packed_refs({b"refs/tags/v1": ids[1], b"refs/heads/side": None})
        return {}

    def op_commit_graph(r, ids):
        r.object_store.write_commit_graph()
        return {}

    def op_shallow(r, ids):
        r.update_shallow([ids[1]], [])
        return {}

    def op_alternates(r, ids):
        r.object_store.add_alternate_path("/nonexistent/alt/objects")
        return {}

    def op_midx(r, ids):
        if not list(r.object_store.packs):
            r.object_store.pack_loose_objects()
        r.object_store.write_midx()
        return {}
    return [op_locked_ref_set, op_locked_ref_readonly, op_add_packed_refs, op_commit_graph, op_shallow, op_alternates, op_midx]


def _protected(d):
    """{relative path: bytes} of every file of the control directory that is written through the lock protocol or must
    be complete when visible (loose objects and packs are checked by hashing instead; logs are append-only)"""
    out = {}
    g = os.path.join(d, ".git")
    for dp, dn, fn in os.walk(g):
        rel = os.path.relpath(dp, g)
        if rel.startswith("logs") or rel.startswith("hooks") or rel.startswith(os.path.join("objects", "pack")):
            continue
        if rel.startswith("objects") and rel not in ("objects", os.path.join("objects", "info")):
            continue
        for f in fn:
            with open(os.path.join(dp, f), "rb") as fh:
                out[os.path.normpath(os.path.join(rel, f))] = fh.read()
    return out


def _objects_sound(d):
    """every loose object and every installed pack that is visible is complete (hashes / checks)"""
    from dulwich.repo import Repo
    bad = []
    r = Repo(d)
    try:
        for sha in r.object_store:
            try:
                if r.object_store[sha].id != sha:
                    bad.append(sha)
            except Exception as e:
                bad.append((sha, repr(e)))
    finally:
        r.close()
    return bad


def h_callers_fault(eng, opk=0, packed=False, interrupt=False, kmax=40):
    from dulwich.repo import Repo
    from dulwich.file import FileLocked
    from vf.interpose import Interposer, scratch, fault
    import vf.props.C09 as C9
    ops = C9.OPS[:10] + _extra_ops()
    op = ops[opk]
    k = eng.choice("fault_at", kmax)
    d, d2 = scratch("c07d"), scratch("c07e")
    try:
        r, ids = C9._mkrepo(d, packed)
        r2, ids2 = C9._mkrepo(d2, packed)
        op(r2, ids2)                                   # fault-free twin: the complete new content
        r2.close()
        old, new = _protected(d), _protected(d2)
        if op.__name__ == "op_locked_ref_readonly":
            eng.prove(new == old, f"taking and releasing a ref lock without writing leaves every file unchanged: "
                                  f"{[p_ for p_ in set(old) | set(new) if old.get(p_) != new.get(p_)]}")
        hit = []

        def hook(i, name, path):
            if i == k:
                hit.append((name, os.fsdecode(path) if isinstance(path, (bytes, str)) else str(path)))
                raise (KeyboardInterrupt() if interrupt else fault(name))
        err = None
        with Interposer(d, hook):
            try:
                op(r, ids)
            except (Exception, KeyboardInterrupt) as e:
                err = e
        eng.assume(bool(hit))
        r.close()
        tag = f"[{op.__name__} {'packed' if packed else 'loose'} repo; {'KeyboardInterrupt' if interrupt else 'EIO'} in call {k}: {hit[0][0]} {hit[0][1][len(d):]}]"
        cur = _protected(d)
        for path in sorted(set(old) | set(cur)):
            if path.endswith(".lock"):
                continue
            c = cur.get(path)
            eng.prove(c == old.get(path) or c == new.get(path),
                      f"{tag} {path} holds its complete old or complete new content (now {None if c is None else c[:60]!r}, "
                      f"old {None if old.get(path) is None else old.get(path)[:40]!r})")
        locks = [p for p in cur if p.endswith(".lock")]
        lock_remove_failed = hit[0][0] in ("remove", "unlink") and hit[0][1].endswith(".lock")
        if not lock_remove_failed:
            eng.prove(not locks, f"{tag} no lock file is left behind: {locks}")
        eng.prove(not _objects_sound(d), f"{tag} every visible object is complete: {_objects_sound(d)[:2]}")
        if not locks:
            r = Repo(d)
            try:
                op(r, ids)
                retry = None
            except Exception as e:
                retry = e
            finally:
                r.close()
            eng.prove(not isinstance(retry, FileLocked), f"{tag} the operation can be retried (got {retry!r})")
    finally:
        shutil.rmtree(d, ignore_errors=True)
        shutil.rmtree(d2, ignore_errors=True)


def checks(tier):
    q = ("quick", "thorough")
    nops = 10 + 7
    return _b07d(tier) + [
        KCheck("C07d.callers_fault", h_callers_fault,
               parts=[{"opk": o, "packed": p, "interrupt": i} for o in range(nops) for p in (False, True) for i in (False, True)],
               encoded=["dulwich.index.Index.write", "dulwich.config.ConfigFile.write_to_path", "dulwich.refs.DiskRefsContainer.set_if_equals/"
                        "add_if_new/remove_if_equals/set_symbolic_ref/pack_refs/add_packed_refs", "dulwich.refs.locked_ref",
                        "dulwich.object_store.DiskObjectStore.add_object/add_objects/write_commit_graph/write_midx/add_alternate_path",
                        "dulwich.repo.Repo.update_shallow", "dulwich.worktree.WorkTree.commit", "dulwich.file._GitFile"],
               bounds="17 operations that write through the lock protocol (index, config, loose and packed refs, symbolic ref, "
                      "locked_ref with and without a write, loose object, pack + index, commit, commit-graph, multi-pack-index, "
                      "shallow, alternates) from a loose and a packed repository; one of the first 40 file-system calls of the "
                      "operation (symbolic index) raises EIO or KeyboardInterrupt; protected files compared byte-wise with the "
                      "old content and with a fault-free twin run",
               outside="two faults in one operation; faults in read calls; reflogs (append-only, not lock-protected)",
               time_budget=2400, tiers=q),
    ]
