"""C13 — merge-base, ancestry and history walks are exact on every DAG and clock."""
from __future__ import annotations

from vf.common import KCheck
from vf.ksym.core import And, Or, Not

import dulwich.graph as G
from dulwich.objects import Commit, FixedSha
from dulwich.repo import ParentsProvider
from dulwich.walk import Walker, ORDER_DATE, ORDER_TOPO

PROPERTY = "C13"
TMAX = 2 ** 40


def ID(i):
    return (b"%02x" % (i + 1)) * 20


class FakeStore(dict):
    def get_commit_graph(self):
        return None


class FakeRepo:
    def __init__(self, store):
        self.object_store = store

    def parents_provider(self):
        return ParentsProvider(self.object_store)


CLOCKS = [lambda i: i, lambda i: -i, lambda i: 0, lambda i: (0, 2, 1, 3, 2, 4, 3)[i], lambda i: (3, 1, 4, 1, 5, 9, 2)[i],
          lambda i: (5, 0, 5, 0, 5, 0, 5)[i]]


def _dag(eng, n, last=None, clocks=False):
    """symbolic DAG on n commits (edges only from later to earlier index => acyclic); the edge set
    is forked into concrete shapes, timestamps stay symbolic integers"""
    par = {}
    for j in range(n):
        ps = []
        for i in range(j):
            if j == n - 1 and last is not None:
                bit = bool(last >> i & 1)
            else:
                bit = bool(eng.bool(f"e{j}_{i}"))
            if bit:
                ps.append(i)
        par[j] = ps
    if clocks:
        # concrete clock patterns (forked by the solver) instead of fully symbolic timestamps: increasing, decreasing, all
        # equal, two zig-zags, alternating
        ck = CLOCKS[eng.choice("clock_pattern", len(CLOCKS))]
        ts = [ck(i) for i in range(n)]
    else:
        ts = [eng.int(f"t{i}", -TMAX, TMAX) for i in range(n)]
    return par, ts


def _anc(par, x):
    seen, st = set(), [x]
    while st:
        y = st.pop()
        if y in seen:
            continue
        seen.add(y)
        st.extend(par[y])
    return seen


def ref_lcas(par, a, bs):
    common = _anc(par, a) & set().union(*[_anc(par, b) for b in bs])
    return {c for c in common if not any(d != c and c in _anc(par, d) for d in common)}


def _store(par, ts):
    st = FakeStore()
    for i in par:
        c = Commit()
        c.parents = [ID(p) for p in par[i]]
        c.commit_time = ts[i]
        c.author_time = ts[i]
        c._needs_serialization = False
        c._sha = FixedSha(ID(i))
        st[ID(i)] = c
    return st


def _known_skew(eng, par, ts):
    """region of the known finding C13-skew: some commit is not newer than one of its ancestors' ...
    i.e. timestamps are not monotone along edges"""
    return Or(*[ts[j] < ts[i] for j in par for i in par[j]]) if any(par.values()) else False


def _pick(eng, name, n, fixed):
    return fixed if fixed is not None else eng.choice(name, n)


def h_lcas(eng, n=4, last=None, a=None, clocks=False):
    """_find_lcas(a,[b]) == set of maximal common ancestors, every DAG shape, symbolic timestamps"""
    par, ts = _dag(eng, n, last, clocks)
    a = _pick(eng, "a", n, a)
    b = eng.choice("b", n)
    got = G._find_lcas(lambda c: [ID(p) for p in par[int(c[:2], 16) - 1]], ID(a), [ID(b)],
                       lambda c: ts[int(c[:2], 16) - 1])
    want = {ID(w) for w in ref_lcas(par, a, [b])}
    eng.observe("lcas", sorted(got))
    eng.prove(len(got) == len(set(got)), "no duplicates")
    eng.prove(set(got) == want, "merge-base set equals the maximal common ancestors")


def h_graph_api(eng, n=4, last=None, a=None, api="mb"):
    """find_merge_base / can_fast_forward / independent on a store of real Commit objects"""
    par, ts = _dag(eng, n, last)
    repo = FakeRepo(_store(par, ts))
    a = _pick(eng, "a", n, a)
    b = eng.choice("b", n)
    if api == "mb":
        mb = G.find_merge_base(repo, [ID(a), ID(b)])
        eng.prove(set(mb) == {ID(w) for w in ref_lcas(par, a, [b])}, "find_merge_base exact")
    elif api == "ff":
        ff = G.can_fast_forward(repo, ID(a), ID(b))
        eng.prove(bool(ff) == (a in _anc(par, b)), "can_fast_forward(a,b) <=> a is an ancestor of b")
    else:
        eng.assume(a != b)
        ind = G.independent(repo, [ID(a), ID(b)])
        want = [x for x in (a, b) if not any(y != x and x in _anc(par, y) for y in (a, b))]
        eng.prove(sorted(ind) == sorted(ID(x) for x in want), "independent exact")


def h_octopus(eng, n=4, last=None):
    par, ts = _dag(eng, n, last)
    repo = FakeRepo(_store(par, ts))
    heads = [eng.choice(f"h{k}", n) for k in range(3)]
    eng.assume(len(set(heads)) == 3)
    got = G.find_octopus_base(repo, [ID(h) for h in heads])
    common = _anc(par, heads[0]) & _anc(par, heads[1]) & _anc(par, heads[2])
    want = {c for c in common if not any(d != c and c in _anc(par, d) for d in common)}
    eng.prove(set(got) >= {ID(w) for w in want} if False else set(got) == {ID(w) for w in want},
              "octopus base equals maximal common ancestors of all heads")


def h_walk(eng, n=4, last=None, order=ORDER_DATE):
    """Walker without excludes yields exactly the reachable commits, once each; topo order never puts a
    parent before its child; with excludes and monotone clocks: reachable(include)-reachable(exclude)"""
    par, ts = _dag(eng, n, last)
    store = _store(par, ts)
    inc = [i for i in range(n) if bool(eng.bool(f"inc{i}"))]
    eng.assume(len(inc) > 0)
    w = Walker(store, [ID(i) for i in inc], order=order)
    out = [e.commit.id for e in w]
    reach = set().union(*[_anc(par, i) for i in inc])
    eng.prove(len(out) == len(set(out)), "each commit at most once")
    eng.prove(set(out) == {ID(i) for i in reach}, "exactly the reachable set")
    if order == ORDER_TOPO:
        pos = {c: k for k, c in enumerate(out)}
        ok = all(pos[ID(c)] < pos[ID(p)] for c in reach for p in par[c])
        eng.prove(ok, "no parent before its child in topo order")


def h_walk_exclude(eng, n=4, last=None):
    par, ts = _dag(eng, n, last)
    for j in par:
        for i in par[j]:
            eng.assume(ts[j] > ts[i])       # monotone clocks (the property's condition for excludes)
    store = _store(par, ts)
    inc = [i for i in range(n) if bool(eng.bool(f"inc{i}"))]
    exc = [i for i in range(n) if bool(eng.bool(f"exc{i}"))]
    eng.assume(len(inc) > 0 and len(exc) > 0)
    w = Walker(store, [ID(i) for i in inc], exclude=[ID(i) for i in exc])
    out = [e.commit.id for e in w]
    reach = set().union(*[_anc(par, i) for i in inc]) - set().union(*[_anc(par, i) for i in exc])
    eng.prove(len(out) == len(set(out)), "each commit at most once")
    eng.prove(set(out) == {ID(i) for i in reach}, "reachable(include) - reachable(exclude)")


def checks(tier):
    q = ("quick", "thorough")
    t = ("thorough",)
    P4 = [{"n": 4, "last": m} for m in range(8)]
    P4a = [{"n": 4, "last": m, "a": a} for m in range(8) for a in range(4)]
    P5 = [{"n": 5, "last": m, "clocks": True} for m in range(16)]
    g = "dulwich.graph."
    return [
        KCheck("C13a.lcas", h_lcas, parts=[{"n": 2}, {"n": 3}] + P4a,
               encoded=[g + "_find_lcas", g + "WorkList"],
               bounds="every DAG on 2..4 commits (all edge sets), every pair (a,b), commit timestamps symbolic integers in "
                      "[-2^40, 2^40] (the code only compares and negates them, so every ordering incl. ties, backwards "
                      "clocks and negative values is covered)",
               outside="DAGs with more than 4 commits (5 in the thorough tier)", max_decisions=600,
               pins=[(2 + 5 * 4 + 3, {"e1_0": True, "e2_0": False, "e2_1": True, "t0": 35, "t1": 19, "t2": 20, "t3": 19, "b": 2})],
               tiers=q),
        KCheck("C13a.lcas_5", h_lcas, parts=P5, encoded=[g + "_find_lcas"],
               bounds="every DAG on 5 commits and every pair, under 6 concrete clock patterns (increasing, decreasing, all equal, "
                      "two zig-zags, alternating) forked by the solver; fully symbolic timestamps on 5 commits did not finish "
                      "within hours (80 partitions of ~40 min) and are not claimed", outside="> 5 commits; other clock patterns on 5 commits",
               max_decisions=1200, time_budget=6000, tiers=t),
        KCheck("C13b.can_fast_forward", h_graph_api, parts=[dict(p, api="ff") for p in [{"n": 3}] + P4a],
               encoded=[g + "can_fast_forward", g + "_find_lcas", "dulwich.repo.ParentsProvider.get_parents"],
               bounds="every DAG on 3..4 commits, every pair, symbolic timestamps; commits are real Commit objects in a dict store",
               outside="grafts, shallow boundaries, commit-graph-backed parents (C14)", max_decisions=900, tiers=q),
        KCheck("C13b.find_merge_base", h_graph_api, parts=[dict(p, api="mb") for p in [{"n": 3}] + P4a],
               encoded=[g + "find_merge_base", g + "_find_lcas"],
               bounds="every DAG on 3..4 commits, every pair, symbolic timestamps", outside="as above",
               max_decisions=900, tiers=t),
        KCheck("C13b.independent", h_graph_api, parts=[dict(p, api="ind") for p in [{"n": 3}] + P4a],
               encoded=[g + "independent", g + "find_merge_base"],
               bounds="every DAG on 3..4 commits, every pair of distinct commits, symbolic timestamps", outside="> 2 commits in the list",
               max_decisions=1200, tiers=t),
        KCheck("C13b.octopus", h_octopus, parts=P4, encoded=[g + "find_octopus_base"],
               bounds="every DAG on 4 commits, every 3 distinct heads, symbolic timestamps", outside="> 3 heads",
               max_decisions=900, time_budget=3000, tiers=t),
        KCheck("C13c.walk_date", h_walk, parts=[{"n": 3}] + P4,
               encoded=["dulwich.walk.Walker", "dulwich.walk._CommitTimeQueue"],
               bounds="every DAG on 3..4 commits, every non-empty include set, symbolic timestamps, date order",
               outside="paths=, since/until, max_entries (thorough)", max_decisions=900, tiers=q),
        KCheck("C13c.walk_topo", h_walk, parts=[{"n": 4, "last": m, "order": ORDER_TOPO} for m in range(8)],
               encoded=["dulwich.walk.Walker", "dulwich.walk._topo_reorder"],
               bounds="every DAG on 4 commits, every include set, symbolic timestamps, topo order", outside="-",
               max_decisions=900, tiers=q),
        KCheck("C13c.walk_exclude", h_walk_exclude, parts=[{"n": 3, "last": m} for m in range(4)],
               encoded=["dulwich.walk.Walker", "dulwich.walk._CommitTimeQueue._exclude_parents"],
               bounds="every DAG on 3 commits, every include/exclude set, symbolic timestamps monotone along edges",
               outside="4 commits (thorough); non-monotone clocks with excludes (excluded by the property)",
               max_decisions=900, tiers=q),
        KCheck("C13c.walk_exclude_4", h_walk_exclude, parts=P4,
               encoded=["dulwich.walk.Walker", "dulwich.walk._CommitTimeQueue._exclude_parents"],
               bounds="every DAG on 4 commits, every include/exclude set, symbolic timestamps monotone along edges",
               outside="-", max_decisions=900, time_budget=6000, tiers=t),
    ]


# ---------------------------------------------------------------------------------------------
# since / until / max_entries on monotone clocks
_b13 = checks


def h_walk_limits(eng, n=7):
    """linear history of n commits with symbolic timestamps that never run backwards (ties allowed) and symbolic
    since/until/max_entries: the walk yields exactly the commits inside the window, newest first"""
    par = {i: ([i - 1] if i > 0 else []) for i in range(n)}
    ts = [eng.int(f"t{i}", 0, 50) for i in range(n)]
    for i in range(1, n):
        eng.assume(ts[i] >= ts[i - 1])
    store = _store(par, ts)
    since = eng.int("since", 0, 50) if eng.bool("use_since") else None
    until = eng.int("until", 0, 50) if eng.bool("use_until") else None
    w = Walker(store, [ID(n - 1)], since=since, until=until)
    out = [e.commit.id for e in w]
    for i in range(n):
        inside = And(True if since is None else ts[i] >= since, True if until is None else ts[i] <= until)
        got = ID(i) in out
        eng.prove(inside == got, f"commit {i} of {n} is yielded exactly if its time lies in [since, until] "
                                 f"(yielded={got}, out={[o[:2] for o in out]})")
    eng.prove(len(out) == len(set(out)), "each commit once")


def checks(tier):
    q = ("quick", "thorough")
    return _b13(tier) + [
        KCheck("C13c.walk_since_until", h_walk_limits, parts=[{"n": 7}],
               encoded=["dulwich.walk.Walker._should_return", "dulwich.walk._CommitTimeQueue._step (since over-scan, _MAX_EXTRA_COMMITS)"],
               bounds="linear history of 7 commits, symbolic non-decreasing timestamps (ties, long runs of equal times), symbolic "
                      "since and/or until", outside="clock skew together with since (the implementation documents a bounded over-scan)",
               max_decisions=900, tiers=q),
    ]


# ---------------------------------------------------------------------------------------------
# (d) the same answers when the parents come from a commit-graph file (repositories on disk)
_b13d = checks


def checks(tier):
    from vf.props.C14 import h_commit_graph
    q = ("quick", "thorough")
    return _b13d(tier) + [
        KCheck("C13d.with_commit_graph", h_commit_graph, parts=[{"octopus": True, "n": 5, "graft_on": None}, {"stale": False, "graft_on": None}],
               encoded=["dulwich.graph.find_merge_base/can_fast_forward", "dulwich.repo.ParentsProvider.get_parents",
                        "dulwich.commit_graph.CommitGraph.write_to_file/_parse_chunks"],
               bounds="disk repositories with a commit-graph written by dulwich: every history of 4 commits, and histories of 5 "
                      "commits with two octopus merges; parents, merge bases and fast-forward answers for every pair equal those "
                      "without the file (the harness of C14a)", outside="see C14a", tiers=q),
    ]


# ---------------------------------------------------------------------------------------------
# (e) the final filter of _find_lcas on its own: one call from an arbitrary candidate list
import itertools
_b13e = checks
_PERMS = {k: [p for r in range(1, k + 1) for c in itertools.combinations(range(k), r) for p in itertools.permutations(c)]
          for k in (3, 4, 5)}


def h_remove_redundant(eng, n=4, last=None):
    """_remove_redundant(cands) keeps exactly the candidates that are not proper ancestors of another candidate, in their
    original order, for every DAG, every non-empty candidate set and every order in which _find_lcas may list it (the
    order depends on the clock, so all orders are taken)"""
    par = _dag_only(eng, n, last)
    perms = _PERMS[n]
    cands = list(perms[eng.choice("cands", len(perms))])
    got = G._remove_redundant([ID(c) for c in cands], lambda c: [ID(p) for p in par[int(c[:2], 16) - 1]])
    want = [ID(c) for c in cands if not any(d != c and c in _anc(par, d) for d in cands)]
    eng.observe("kept", got)
    eng.prove(got == want, "exactly the candidates not reachable from another candidate survive, order kept")


def _dag_only(eng, n, last):
    par = {}
    for j in range(n):
        par[j] = [i for i in range(j)
                  if (bool(last >> i & 1) if (j == n - 1 and last is not None) else bool(eng.bool(f"e{j}_{i}")))]
    return par


def checks(tier):
    q = ("quick", "thorough")
    return _b13e(tier) + [
        KCheck("C13e.remove_redundant", h_remove_redundant, parts=[{"n": 3}] + [{"n": 4, "last": m} for m in range(8)],
               encoded=["dulwich.graph._remove_redundant"],
               bounds="every DAG of 3 and 4 commits, every non-empty candidate subset in every order (the order _find_lcas produces "
                      "depends on the timestamps, so every order stands for every clock)",
               outside="more than 4 commits (5 thorough); shallow boundaries (lookup failures)", tiers=q),
        KCheck("C13e.remove_redundant_5", h_remove_redundant, parts=[{"n": 5, "last": m} for m in range(16)],
               encoded=["dulwich.graph._remove_redundant"],
               bounds="every DAG of 5 commits, every non-empty candidate subset in every order",
               outside="more than 5 commits; shallow boundaries", time_budget=2400, tiers=("thorough",)),
    ]


# ---------------------------------------------------------------------------------------------
# (f) excludes with tied timestamps (monotone, not strictly) and the slop window brought inside the bound
import dulwich.walk as _W
_b13f = checks


def h_walk_exclude_ties(eng, n=4, last=None, slop=1):
    """as h_walk_exclude, but parents may carry the same timestamp as their children (clocks with one-second resolution
    make such ties common) and the walker's slop constant _MAX_EXTRA_COMMITS is scaled down to `slop`, so that the window
    in which the walk runs on after the queue holds only excluded commits lies inside the 4-5 commit bound. Exactness on
    non-decreasing clocks does not depend on the constant's value (everything already emitted is at least as new as the
    last emitted commit, so once the newest queued commit is older than that nothing emitted can be its ancestor)."""
    par, ts = _dag(eng, n, last)
    for j in par:
        for i in par[j]:
            eng.assume(ts[j] >= ts[i])
    store = _store(par, ts)
    inc = [i for i in range(n) if bool(eng.bool(f"inc{i}"))]
    exc = [i for i in range(n) if bool(eng.bool(f"exc{i}"))]
    eng.assume(len(inc) > 0 and len(exc) > 0)
    old = _W._MAX_EXTRA_COMMITS
    _W._MAX_EXTRA_COMMITS = slop
    try:
        w = Walker(store, [ID(i) for i in inc], exclude=[ID(i) for i in exc])
        out = [e.commit.id for e in w]
    finally:
        _W._MAX_EXTRA_COMMITS = old
    reach = set().union(*[_anc(par, i) for i in inc]) - set().union(*[_anc(par, i) for i in exc])
    eng.prove(len(out) == len(set(out)), "each commit at most once")
    eng.prove(set(out) == {ID(i) for i in reach}, "reachable(include) - reachable(exclude) with tied timestamps")


def checks(tier):
    q = ("quick", "thorough")
    enc = ["dulwich.walk.Walker", "dulwich.walk._CommitTimeQueue._step/_exclude_parents"]
    return _b13f(tier) + [
        KCheck("C13f.walk_exclude_ties", h_walk_exclude_ties, parts=[{"n": 3, "last": m, "slop": s} for m in range(4) for s in (1, 5)],
               encoded=enc,
               bounds="every DAG on 3 commits, every include/exclude set, symbolic timestamps non-decreasing along edges (ties "
                      "allowed); slop constant _MAX_EXTRA_COMMITS at its real value 5 and scaled to 1",
               outside="4 commits (thorough); runs of ties longer than the bound at the real slop value (reached through the "
                       "scaled constant only)", max_decisions=900, tiers=q),
        KCheck("C13f.walk_exclude_ties_4", h_walk_exclude_ties,
               parts=[{"n": 4, "last": m, "slop": s} for m in range(8) for s in (1, 2)], encoded=enc,
               bounds="every DAG on 4 commits, every include/exclude set, non-decreasing symbolic timestamps; slop 1 and 2",
               outside="-", max_decisions=900, time_budget=6000, tiers=("thorough",)),
    ]
