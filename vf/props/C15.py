"""C15 — Rust extensions and pure-Python fallbacks are observationally equivalent.

Honest scope: no symbolic engine for Rust is installed (no Kani/KLEE) and a MIR front-end beyond two leaf
functions was not completed.  What is decided here: the *Python* twin of every pair is executed symbolically
(ksym) over all inputs in the bound; for every feasible path the solver's model of that path is executed
natively on BOTH twins (the extension is rebuilt from /repo's current crates/ on every run) and their observable
results must agree.  This covers every path of the Python twin with one solver-derived witness; it does not
cover Rust-side case splits inside one Python path.  The claim is stated at that level in MANIFEST.json.
"""
from __future__ import annotations

import os

from vf.common import KCheck
from vf.ksym.core import And, Or, Not
from vf.ksym.sbytes import SymBytes, _out, elems_of
from vf import rustext

import dulwich.pack as P
import dulwich.objects as O
import dulwich.diff_tree as DT
from dulwich.errors import ApplyDeltaError, ObjectFormatException
from dulwich.objects import Blob, TreeEntry

PROPERTY = "C15"

_EXT = {}


def ext(mod):
    if not _EXT:
        paths = rustext.build()
        for m in paths:
            _EXT[m] = rustext.load(paths, m)
    return _EXT[mod]


ext("_pack")          # build and load once, in the parent process, before the worker pool forks


def outcome(f, *a, post=lambda r: r, **k):
    """observable result: ('ok', value) | ('err', exception family) | ('crash', type) for anything that is not an
    ordinary exception (a Rust panic surfaces as pyo3_runtime.PanicException, a BaseException)"""
    try:
        return ("ok", post(f(*a, **k)))
    except (ApplyDeltaError, ObjectFormatException, ValueError, KeyError, TypeError, OverflowError, AssertionError,
            IndexError) as e:
        fam = "ApplyDeltaError" if isinstance(e, ApplyDeltaError) else \
            "ObjectFormatException" if isinstance(e, ObjectFormatException) else type(e).__name__
        return ("err", fam)
    except BaseException as e:          # PanicException and friends
        return ("crash", type(e).__name__)


def _join(chunks):
    return b"".join(bytes(c) for c in chunks)


def h_apply_delta(eng, dlen=5, slen=2):
    """same bytes, or failure in both, on one solver-derived witness per path of the Python decoder"""
    delta = eng.bytes("delta", dlen)
    src = eng.bytes("src", slen)
    try:
        P.apply_delta(src, delta)
    except ApplyDeltaError:
        pass
    w = eng.witness()
    cd, cs = bytes(w["delta"]), bytes(w["src"])
    py = outcome(P.apply_delta, cs, cd, post=_join)
    rs = outcome(ext("_pack").apply_delta, cs, cd, post=_join)
    if eng.known("C15-apply-delta-failure-kinds"):
        pass
    eng.prove(rs[0] != "crash", f"Rust apply_delta must not panic (got {rs}) on delta={cd.hex()} src={cs.hex()}", inputs=w)
    same = (py == rs) or (py[0] == "err" and rs[0] == "err")
    eng.prove(same, f"apply_delta: Python {py} vs Rust {rs} on delta={cd.hex()} src={cs.hex()}", inputs=w)


def h_header_region(eng, dlen=12):
    """size varints of up to 11 bytes: no panic, same verdict"""
    delta = eng.bytes("delta", dlen)
    for b in list(delta)[:dlen - 2]:
        eng.assume(b & 0x80 != 0)
    try:
        P.apply_delta(b"", delta)
    except ApplyDeltaError:
        pass
    w = eng.witness()
    cd = bytes(w["delta"])
    py = outcome(P.apply_delta, b"", cd, post=_join)
    rs = outcome(ext("_pack").apply_delta, b"", cd, post=_join)
    if eng.known("C15-rust-varint-shift-panic"):
        eng.assume(dlen < 11)
    eng.prove(rs[0] != "crash", f"Rust apply_delta panics on delta={cd.hex()} ({rs})", inputs=w)
    eng.prove(py == rs or (py[0] == "err" and rs[0] == "err"), f"Python {py} vs Rust {rs} on {cd.hex()}", inputs=w)


def h_create_delta(eng, blen=3, tlen=3):
    """both encoders' output decodes (with both decoders) to the target"""
    base = eng.bytes("base", blen)
    target = eng.bytes("target", tlen)
    w = eng.witness()
    cb, ct = bytes(w["base"]), bytes(w["target"])
    d_py = b"".join(P._create_delta_py(cb, ct))
    d_rs = bytes(ext("_pack").create_delta(cb, ct))
    for nm, d in (("python", d_py), ("rust", d_rs)):
        for dn, dec in (("python", P.apply_delta), ("rust", ext("_pack").apply_delta)):
            r = outcome(dec, cb, d, post=_join)
            eng.prove(r == ("ok", ct), f"{nm} encoder + {dn} decoder reproduce the target (base={cb!r} target={ct!r} got {r})", inputs=w)


RUNS = [1, 126, 127, 128, 253, 254, 255, 381]
COPIES = [16, 0xFFFF, 0x10000, 0x10001]


def h_create_delta_runs(eng, rust=True, cpk=0, where=0):
    """literal runs and copy blocks at the opcode size limits (127-byte inserts, 64 KiB copies): both encoders' output
    decodes with both decoders to the target"""
    run = RUNS[eng.choice("literal_run_length", len(RUNS))]
    cp = COPIES[cpk]
    # where: literal at the start (0), in the middle (1), at the end (2)
    common = bytes((i * 7 + (i >> 8)) & 0xFF for i in range(cp))
    lit = bytes(200 + (i % 50) for i in range(run))
    base = common
    target = [lit + common, common[:cp // 2] + lit + common[cp // 2:], common + lit][where]
    encs = [("python", P._create_delta_py)] + ([("rust", ext("_pack").create_delta)] if rust else [])
    decs = [("python", P.apply_delta)] + ([("rust", ext("_pack").apply_delta)] if rust else [])
    for nm, enc in encs:
        d = b"".join(enc(base, target)) if nm == "python" else bytes(enc(base, target))
        for dn, dec in decs:
            r = outcome(dec, base, d, post=_join)
            eng.prove(r[0] == "ok" and r[1] == target, f"{nm} encoder + {dn} decoder reproduce a target with a {run}-byte literal "
                      f"(position {where}) and a {cp}-byte common block (got {r[0]} {str(r[1])[:60]})")


def h_parse_tree(eng, n=5, strict=False, tail2=False):
    """same entry list, or failure in both, for every path of the Python parser"""
    head = eng.bytes("text", n)
    tail = b"\x01" * 20 + (b"40000 d\0" + b"\x02" * 20 if tail2 else b"")
    text = head + tail
    try:
        list(O.parse_tree(text, 20, strict=strict))
    except (ObjectFormatException, ValueError):
        pass
    w = eng.witness()
    ct = bytes(w["text"]) + tail
    py = outcome(lambda: [tuple(e) for e in O.parse_tree(ct, 20, strict=strict)])
    rs = outcome(lambda: [tuple(e) for e in ext("_objects").parse_tree(ct, 20, strict)])
    eng.prove(rs[0] != "crash", f"Rust parse_tree must not panic on {ct!r}", inputs=w)
    eng.prove(py == rs or (py[0] == "err" and rs[0] == "err"), f"parse_tree({ct!r}, strict={strict}): Python {py} vs Rust {rs}", inputs=w)


def h_sorted_tree_items(eng, n1=2, n2=2):
    """same order for every pair of names and modes (directory/file twins, prefixes)"""
    a = eng.bytes("a", n1)
    b = eng.bytes("b", n2)
    eng.assume(Not(a == b) if n1 == n2 else True)
    ma = eng.int("mode_a", 0, 0o177777)
    mb = eng.int("mode_b", 0, 0o177777)

    class E:
        def __init__(self, items):
            self._i = items

        def items(self):
            return list(self._i)
    sha = b"1" * 40
    list(O.sorted_tree_items(E([(a, (ma, sha)), (b, (mb, sha))]), False))
    w = eng.witness()
    ca, cb = bytes(w["a"]), bytes(w["b"])
    d = {ca: (w["mode_a"], sha), cb: (w["mode_b"], sha)}
    for name_order in (False, True):
        py = outcome(lambda: [tuple(x) for x in O.sorted_tree_items(d, name_order)])
        rs = outcome(lambda: [tuple(x) for x in ext("_objects").sorted_tree_items(d, name_order)])
        eng.prove(py == rs, f"sorted_tree_items({d}, name_order={name_order}): Python {py} vs Rust {rs}", inputs=w)


def h_bisect(eng, k=3):
    keys = [eng.byte(f"k{i}") for i in range(k)]
    for i in range(k - 1):
        eng.assume(keys[i] < keys[i + 1])
    probe = eng.byte("probe")
    start = eng.int("start", 0, k - 1)
    end = eng.int("end", 0, k - 1)
    eng.assume(start <= end)
    pad = b"\x11" * 19
    table = [_out([x]) + pad for x in keys]
    P.bisect_find_sha(int(start), int(end), _out([probe]) + pad, lambda i: table[i])
    w = eng.witness()
    ctab = [bytes([w[f"k{i}"]]) + pad for i in range(k)]
    cs = bytes([w["probe"]]) + pad
    py = outcome(P.bisect_find_sha, w["start"], w["end"], cs, lambda i: ctab[i])
    rs = outcome(ext("_pack").bisect_find_sha, w["start"], w["end"], cs, lambda i: ctab[i])
    eng.prove(py == rs, f"bisect_find_sha: Python {py} vs Rust {rs} (table={ctab} probe={cs} range={w['start']}..{w['end']})", inputs=w)


def h_is_tree(eng):
    mode = eng.int("mode", 0, 2 ** 32 - 1)
    none = bool(eng.bool("mode_is_none"))
    e = TreeEntry(b"x", None if none else mode, b"1" * 40)
    DT._is_tree(e)
    w = eng.witness()
    ce = TreeEntry(b"x", None if none else w["mode"], b"1" * 40)
    py = outcome(DT._is_tree, ce)
    rs = outcome(ext("_diff_tree")._is_tree, ce)
    eng.prove(py == rs, f"_is_tree(mode={ce.mode}): Python {py} vs Rust {rs}", inputs=w)
    eng.prove(outcome(DT._is_tree, None) == outcome(ext("_diff_tree")._is_tree, None), "_is_tree(None)", inputs=w)


def h_merge_entries(eng, n1=2, n2=2):
    names1 = [eng.bytes(f"x{i}", 1 + (i % 2)) for i in range(n1)]
    names2 = [eng.bytes(f"y{i}", 1 + (i % 2)) for i in range(n2)]
    for nm in names1 + names2:
        for x in elems_of(nm):
            eng.assume(And(x != 0, x != 47))
    for grp in (names1, names2):
        for i in range(len(grp)):
            for j in range(i):
                eng.assume(Not(grp[i] == grp[j]) if len(grp[i]) == len(grp[j]) else True)

    # the first entry of each tree may be a directory (directories sort as "name/" in tree order, by bare name in name order)
    MODES = [0o100644, 0o040000]
    m1 = [MODES[eng.choice("x0_is_dir", 2)]] + [0o100644] * (n1 - 1)
    m2 = [MODES[eng.choice("y0_is_dir", 2)]] + [0o100644] * (n2 - 1)

    class FakeTree:
        def __init__(self, names, modes):
            self.names = names
            self.modes = modes

        def __bool__(self):
            return bool(self.names)

        def iteritems(self, name_order=False):
            ents = [TreeEntry(n, m, b"1" * 40) for n, m in zip(self.names, self.modes)]
            if name_order:
                return sorted(ents, key=lambda e: e.path)
            return sorted(ents, key=lambda e: (e.path + b"/") if e.mode == 0o040000 else e.path)
    DT._merge_entries(b"", FakeTree(names1, m1), FakeTree(names2, m2))
    w = eng.witness()
    from dulwich.objects import Tree
    t1, t2 = Tree(), Tree()
    for i in range(n1):
        t1.add(bytes(w[f"x{i}"]), m1[i], b"1" * 40)
    for i in range(n2):
        t2.add(bytes(w[f"y{i}"]), m2[i], b"2" * 40)
    conv = lambda r: [(a and tuple(a), b and tuple(b)) for a, b in r]
    py = outcome(DT._merge_entries, b"p", t1, t2, post=conv)
    saved = O.sorted_tree_items
    O.sorted_tree_items = ext("_objects").sorted_tree_items     # the extensions are enabled together in a real build
    try:
        rs = outcome(ext("_diff_tree")._merge_entries, b"p", t1, t2, post=conv)
    finally:
        O.sorted_tree_items = saved
    eng.prove(py == rs, f"_merge_entries: Python {py} vs Rust {rs}", inputs=w)


LINES = [b"", b"a\n", b"a\r\n", b"x\ry\n", b"\r", b"b" * 70 + b"\n", b"tail-without-newline"]


def h_count_blocks(eng):
    """block tables agree on blobs assembled from a symbolic choice of line kinds (LF, CRLF, lone CR, >64-byte line,
    missing final newline) and chunkings"""
    parts = [LINES[eng.choice(f"l{i}", len(LINES))] for i in range(3)]
    data = b"".join(parts)
    cut = eng.choice("chunk_cut", 4)
    b = Blob()
    c = min(len(data), [0, 1, 3, 65][cut])
    b.chunked = [data[:c], data[c:]]
    w = eng.witness()
    py = outcome(DT._count_blocks, b, post=dict)
    rs = outcome(ext("_diff_tree")._count_blocks, b, post=dict)
    eng.prove(py == rs, f"_count_blocks({data!r}): Python {py} vs Rust {rs}", inputs=w)


def checks(tier):
    q = ("quick", "thorough")
    t = ("thorough",)
    note = ("one solver-derived witness per feasible path of the Python twin, executed natively on both twins; the "
            "extension is rebuilt from /repo's crates/ (cargo build --offline) on every run")
    return [
        KCheck("C15a.apply_delta", h_apply_delta,
               parts=[{"dlen": d, "slen": s} for d in range(0, 6) for s in (0, 2)],
               encoded=["dulwich.pack.apply_delta (symbolic)", "crates/pack/src/lib.rs apply_delta (native, rebuilt)"],
               bounds="every path of the Python decoder over all deltas of 0..5 bytes x bases of 0 and 2 bytes; " + note,
               outside="Rust-side case splits inside one Python path; deltas > 5 bytes", max_decisions=200, tiers=q),
        KCheck("C15a.header_region", h_header_region, parts=[{"dlen": n} for n in (3, 10, 11, 12)],
               encoded=["dulwich.pack.apply_delta", "crates/pack/src/lib.rs get_delta_header_size/apply_delta"],
               bounds="deltas of 3,10,11,12 bytes whose first n-2 bytes carry the continuation bit; " + note, outside="-", tiers=q),
        KCheck("C15b.create_delta", h_create_delta, parts=[{"blen": b, "tlen": t_} for b in (0, 2, 3) for t_ in (0, 2, 3)],
               encoded=["dulwich.pack._create_delta_py", "crates/pack/src/lib.rs create_delta", "both decoders"],
               bounds="one witness per (|base|,|target|) in {0,2,3}^2 with symbolic contents (the encoders' own branching on "
                      "contents is not explored symbolically: difflib/similar run natively)",
               outside="the diff algorithms' case splits", tiers=q),
        KCheck("C15b.create_delta_runs", h_create_delta_runs, parts=[{"cpk": c, "where": w_} for c in range(4) for w_ in range(3)],
               encoded=["dulwich.pack._create_delta_py/_encode_copy_operation", "crates/pack/src/lib.rs create_delta", "both decoders"],
               bounds="literal runs of 1,126,127,128,253,254,255,381 bytes (the 127-byte insert limit and its multiples) at the "
                      "start, middle or end of a target sharing a block of 16, 0xFFFF, 0x10000 or 0x10001 bytes with the base (the "
                      "64 KiB copy limit); concrete contents, lengths forked by the solver",
               outside="other lengths", tiers=q),
        KCheck("C15c.parse_tree", h_parse_tree,
               parts=[{"n": n, "strict": s, "tail2": t2} for n in range(0, 5) for s in (False, True) for t2 in (False, True)],
               encoded=["dulwich.objects.parse_tree (symbolic)", "crates/objects/src/lib.rs parse_tree (native)"],
               bounds="every path of the Python parser over all texts made of 0..4 symbolic bytes followed by a 20-byte id (and "
                      "optionally a second, well-formed entry), strict on/off; " + note,
               outside="longer texts (5-6 symbolic bytes in the thorough tier)", max_decisions=700, tiers=q),
        KCheck("C15c.parse_tree_56", h_parse_tree,
               parts=[{"n": n, "strict": s, "tail2": t2} for n in (5, 6) for s in (False, True) for t2 in (False, True)],
               encoded=["dulwich.objects.parse_tree (symbolic)", "crates/objects/src/lib.rs parse_tree (native)"],
               bounds="texts made of 5-6 symbolic bytes + 20-byte id (+ second entry); " + note, outside="longer",
               max_decisions=900, time_budget=6000, tiers=t),
        KCheck("C15c.sorted_tree_items", h_sorted_tree_items, parts=[{"n1": a, "n2": b} for a in (1, 2) for b in (1, 2)],
               encoded=["dulwich.objects.sorted_tree_items/key_entry (symbolic)", "crates/objects/src/lib.rs sorted_tree_items"],
               bounds="every comparison path of the Python sort over pairs of names of 1-2 bytes and 16-bit modes; " + note,
               outside="more entries", tiers=q),
        KCheck("C15d.bisect", h_bisect, parts=[{"k": k} for k in (1, 2, 3, 4)],
               encoded=["dulwich.pack.bisect_find_sha (symbolic)", "crates/pack/src/lib.rs bisect_find_sha"],
               bounds="sorted tables of 1..4 names, every probe byte, every 0 <= start <= end < k; " + note,
               outside="start > end and indices near 2^31 (the Python twin asserts start <= end)", tiers=q),
        KCheck("C15e.is_tree", h_is_tree, encoded=["dulwich.diff_tree._is_tree", "crates/diff-tree/src/lib.rs _is_tree"],
               bounds="every 32-bit mode / None; " + note, outside="-", tiers=q),
        KCheck("C15e.merge_entries", h_merge_entries, parts=[{"n1": a, "n2": b} for a in (1, 2) for b in (1, 2)],
               encoded=["dulwich.diff_tree._merge_entries (symbolic)", "crates/diff-tree/src/lib.rs _merge_entries"],
               bounds="trees of 1-2 entries with symbolic names of 1-2 bytes; " + note, outside="more entries", max_decisions=600, tiers=q),
        KCheck("C15f.count_blocks", h_count_blocks,
               encoded=["dulwich.diff_tree._count_blocks", "crates/diff-tree/src/lib.rs _count_blocks"],
               bounds="blobs of 3 lines, each a symbolic choice of 7 line kinds (LF, CRLF, lone CR, long line, no final newline), "
                      "4 chunkings (solver-forked choices; both twins run natively)", outside="other contents", tiers=q),
    ]
