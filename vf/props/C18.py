"""C18 — work tree round trip: checkout then stage reproduces the tree; status is exact."""
from __future__ import annotations

import os
import shutil
import stat as _stat

from vf.common import KCheck
from vf.interpose import scratch

from dulwich import porcelain
from dulwich.repo import Repo
from dulwich.objects import Blob, Tree, Commit
from dulwich.index import commit_tree

PROPERTY = "C18"
WHO = b"V <v@v>"
CONT = [b"", b"hello\n", b"HELLO\n", b"a longer content\n"]
# entry kinds: (mode, payload)  payload = blob content or symlink target
KINDS = [None, (0o100644, 1), (0o100755, 1), (0o120000, b"target"), (0o100644, 0), (0o100644, 3), (0o120000, b"d")]
PATHS = [b"f", b"d/g", b"n\xff\xfe", b"d/h"]


def _mk_tree(store, L):
    blobs = []
    for p, (mode, payload) in L.items():
        data = payload if isinstance(payload, bytes) else CONT[payload]
        b = Blob.from_string(data)
        store.add_object(b)
        blobs.append((p, b.id, mode))
    return commit_tree(store, blobs)


def _commit(r, tree_id, parents, n):
    c = Commit()
    c.tree = tree_id
    c.parents = parents
    c.author = c.committer = WHO
    c.author_time = c.commit_time = 100 + n
    c.author_timezone = c.commit_timezone = 0
    c.message = b"c%d" % n
    r.object_store.add_object(c)
    return c.id


def _listing(eng, tag, nk=len(KINDS), paths=PATHS, first=None):
    L = {}
    for i, p in enumerate(paths):
        k = KINDS[first if (i == 0 and first is not None) else eng.choice(f"{tag}{i}", nk)]
        if k is not None:
            L[p] = k
    return L


def _scan(root):
    """what is in the working directory: {path: (mode-kind, bytes)}"""
    out = {}
    broot = os.fsencode(root)
    for dp, dn, fn in os.walk(broot):
        if b".git" in dn:
            dn.remove(b".git")
        for f in fn + [x for x in dn if os.path.islink(os.path.join(dp, x))]:
            full = os.path.join(dp, f)
            rel = os.path.relpath(full, broot)
            st = os.lstat(full)
            if _stat.S_ISLNK(st.st_mode):
                out[rel] = (0o120000, os.readlink(full))
            else:
                with open(full, "rb") as fh:
                    out[rel] = (0o100755 if st.st_mode & 0o100 else 0o100644, fh.read())
    return out


def _expect_disk(L):
    return {p: (mode, payload if isinstance(payload, bytes) else CONT[payload]) for p, (mode, payload) in L.items()}


def _status(r):
    s = porcelain.status(r, untracked_files="all")
    staged = {k: sorted(v) for k, v in s.staged.items()}
    return staged, sorted(s.unstaged), sorted(os.fsencode(u) if isinstance(u, str) else u for u in s.untracked)


_T = [2_000_000_000]


def _touch(path):
    """give every edit a distinct, increasing timestamp (no racy-git ambiguity)"""
    _T[0] += 10
    os.utime(path, ns=(_T[0] * 10 ** 9, _T[0] * 10 ** 9), follow_symlinks=False)


def h_checkout_restage(eng, first=None):
    """checking out a tree, then staging everything, reproduces the tree id; files match; status is clean"""
    L = _listing(eng, "k", first=first)
    eng.assume(len(L) > 0)
    d = scratch("c18")
    try:
        r = Repo.init(d)
        tid = _mk_tree(r.object_store, L)
        cid = _commit(r, tid, [], 0)
        r.refs[b"refs/heads/master"] = cid
        r.refs.set_symbolic_ref(b"HEAD", b"refs/heads/master")
        porcelain.reset(r, "hard", cid)
        eng.prove(_scan(d) == _expect_disk(L), "files, symlink targets and executable bits match the tree after checkout")
        st = _status(r)
        eng.prove(st == ({"add": [], "delete": [], "modify": []}, [], []), f"status is clean right after checkout (got {st})")
        sn = porcelain.status(r)                     # default ("normal") untracked mode
        eng.prove(not sn.untracked and not sn.unstaged and not any(sn.staged.values()),
                  f"status in its default mode is clean right after checkout (got {sn})")
        porcelain.add(r, paths=[os.path.join(d, os.fsdecode(p)) for p in L])
        idx = r.open_index()
        eng.prove(idx.commit(r.object_store) == tid, "staging everything reproduces the tree id")
        r.close()
    finally:
        shutil.rmtree(d, ignore_errors=True)


def h_switch(eng, first=None, second=None):
    """switching from one tree to another (reset --hard between two commits) leaves exactly the second tree:
    content, type and executable bits, clean status, same tree id when re-staged"""
    paths = PATHS[:3]
    L1 = _listing(eng, "a", 4, paths, first=first)
    L2 = _listing(eng, "b", 4, paths, first=second)
    # file <-> directory replacements: in either tree the directory d (holding d/g) may instead be a regular file d
    for L, tag in ((L1, "a_d_is_file"), (L2, "b_d_is_file")):
        if bool(eng.bool(tag)):
            L.pop(b"d/g", None)
            L[b"d"] = KINDS[5]
    eng.assume(len(L1) > 0 and len(L2) > 0)
    d = scratch("c18s")
    try:
        r = Repo.init(d)
        t1, t2 = _mk_tree(r.object_store, L1), _mk_tree(r.object_store, L2)
        c1 = _commit(r, t1, [], 1)
        c2 = _commit(r, t2, [c1], 2)
        r.refs[b"refs/heads/master"] = c1
        r.refs.set_symbolic_ref(b"HEAD", b"refs/heads/master")
        porcelain.reset(r, "hard", c1)
        porcelain.reset(r, "hard", c2)
        eng.prove(_scan(d) == _expect_disk(L2), f"after switching, the work tree is exactly the second tree (L1={L1} L2={L2} disk={_scan(d)})")
        st = _status(r)
        eng.prove(st == ({"add": [], "delete": [], "modify": []}, [], []), f"status clean after the switch (got {st}; L1={L1} L2={L2})")
        eng.prove(r.open_index().commit(r.object_store) == t2, "index holds the second tree")
        r.close()
    finally:
        shutil.rmtree(d, ignore_errors=True)


EDITS = ["modify_same_size", "modify_other_size", "chmod", "delete", "add_untracked", "to_symlink", "stage", "unstage", "rm_cached",
         "to_directory", "add_all", "stage_direct", "restore_by_hand", "reset_hard"]


def h_edits(eng, e1=0):
    """after one or two edits of the work tree / index, status reports exactly the paths that differ between HEAD,
    index and working directory (reference three-way comparison)"""
    L = {b"f": KINDS[1], b"d/g": KINDS[eng.choice("g_kind", 3) + 1], b"n\xff\xfe": KINDS[1]}
    d = scratch("c18e")
    try:
        r = Repo.init(d)
        tid = _mk_tree(r.object_store, L)
        cid = _commit(r, tid, [], 0)
        r.refs[b"refs/heads/master"] = cid
        r.refs.set_symbolic_ref(b"HEAD", b"refs/heads/master")
        porcelain.reset(r, "hard", cid)
        head = _expect_disk(L)
        seq = [EDITS[e1], EDITS[eng.choice("edit2", len(EDITS))]] if eng.bool("two_edits") else [EDITS[e1]]
        # optional fixed suffix: the user puts the committed file back by hand, and / or runs reset --hard
        if eng.bool("then_restore_by_hand"):
            seq.append("restore_by_hand")
        if eng.bool("then_reset_hard"):
            seq.append("reset_hard")
        target = [b"f", b"d/g", b"n\xff\xfe"][eng.choice("target", 3)]
        full = os.path.join(os.fsencode(d), target)
        for ed in seq:
            if ed == "modify_same_size":
                if os.path.islink(full) or not os.path.isfile(full):
                    eng.assume(False)
                with open(full, "rb") as fh:
                    cur = fh.read()
                new = bytes((c ^ 1) if c not in (10,) else c for c in cur)
                eng.assume(new != cur)
                with open(full, "wb") as fh:
                    fh.write(new)
                _touch(full)
            elif ed == "modify_other_size":
                if os.path.islink(full) or not os.path.isfile(full):
                    eng.assume(False)
                with open(full, "ab") as fh:
                    fh.write(b"more\n")
                _touch(full)
            elif ed == "chmod":
                if os.path.islink(full) or not os.path.isfile(full):
                    eng.assume(False)
                os.chmod(full, os.lstat(full).st_mode ^ 0o111)
                _touch(full)
            elif ed == "delete":
                if not os.path.lexists(full):
                    eng.assume(False)
                if os.path.isdir(full) and not os.path.islink(full):
                    shutil.rmtree(full)
                else:
                    os.remove(full)
            elif ed == "add_untracked":
                with open(os.path.join(os.fsencode(d), b"new.txt"), "wb") as fh:
                    fh.write(b"untracked\n")
            elif ed == "to_symlink":
                if os.path.isdir(full) and not os.path.islink(full):
                    shutil.rmtree(full)
                elif os.path.lexists(full):
                    os.remove(full)
                os.symlink(b"elsewhere", full)
                _touch(full)
            elif ed == "to_directory":
                if os.path.isdir(full) and not os.path.islink(full):
                    eng.assume(False)
                if os.path.lexists(full):
                    os.remove(full)
                os.mkdir(full)
                with open(os.path.join(full, b"inner"), "wb") as fh:
                    fh.write(b"inside\n")
            elif ed == "add_all":
                porcelain.add(r)
            elif ed == "stage_direct":
                r.get_worktree().stage([os.fsdecode(target)])
            elif ed == "restore_by_hand":
                # put the committed content and mode back without telling git (the index may still hold something else)
                if os.path.isdir(full) and not os.path.islink(full):
                    shutil.rmtree(full)
                elif os.path.lexists(full):
                    os.remove(full)
                mode_, data_ = head[target]
                if mode_ == 0o120000:
                    os.symlink(data_, full)
                else:
                    os.makedirs(os.path.dirname(full), exist_ok=True)
                    with open(full, "wb") as fh:
                        fh.write(data_)
                    os.chmod(full, 0o755 if mode_ == 0o100755 else 0o644)
                _touch(full)
            elif ed == "reset_hard":
                try:
                    porcelain.reset(r, "hard", cid)
                except OSError:
                    # dulwich refuses to delete a non-empty untracked directory that is in the way (git deletes it); a
                    # refusal is not what this check is about
                    eng.assume(False)
            elif ed == "stage":
                if not os.path.lexists(full):
                    eng.assume(False)
                porcelain.add(r, paths=[os.fsdecode(full)])
            elif ed == "unstage":
                r.get_worktree().unstage([os.fsdecode(target)])
            elif ed == "rm_cached":
                idx = r.open_index()
                if target in idx:
                    del idx[target]
                    idx.write()
        # reference: compare HEAD, index, work tree
        idx = r.open_index()
        index = {}
        for p in idx:
            e = idx[p]
            index[p] = (e.mode, r.object_store[e.sha].as_raw_string())
        disk = _scan(d)
        want_staged = {"add": sorted(p for p in index if p not in head),
                       "delete": sorted(p for p in head if p not in index),
                       "modify": sorted(p for p in index if p in head and index[p] != head[p])}
        want_unstaged = sorted(p for p in index if disk.get(p) != index[p])
        want_untracked = sorted(p for p in disk if p not in index)
        got = _status(r)
        tag = f"[edits={seq} on {target!r}, d/g kind={L[b'd/g']}]"
        if seq[-1] == "reset_hard":
            eng.prove({p_: v_ for p_, v_ in disk.items() if p_ != b"new.txt" and not p_.startswith(target + b"/")} == head or disk == head,
                      f"{tag} after reset --hard the work tree equals HEAD (disk {sorted(disk)})")
            eng.prove(index == head, f"{tag} after reset --hard the index equals HEAD "
                                     f"(differs on {[p_ for p_ in set(index) | set(head) if index.get(p_) != head.get(p_)]})")
        if seq[-1] == "stage_direct":
            eng.prove(index.get(target) == disk.get(target),
                      f"{tag} staging a path makes its index entry equal the work tree (index {index.get(target) and index.get(target)[0]}, "
                      f"disk {disk.get(target) and disk.get(target)[0]})")
        eng.prove(got[0] == want_staged, f"{tag} staged changes exact (got {got[0]}, want {want_staged})")
        eng.prove(got[1] == want_unstaged, f"{tag} unstaged changes exact (got {got[1]}, want {want_unstaged})")
        eng.prove(got[2] == want_untracked, f"{tag} untracked files exact (got {got[2]}, want {want_untracked})")
        r.close()
    finally:
        shutil.rmtree(d, ignore_errors=True)


def checks(tier):
    q = ("quick", "thorough")
    enc = ["dulwich.porcelain.reset/add/status", "dulwich.index.build_index_from_tree/update_working_tree/build_file_from_blob",
           "dulwich.index.get_unstaged_changes/_stat_matches_entry/index_entry_from_stat", "dulwich.index.Index.commit/changes_from_tree",
           "dulwich.porcelain.get_tree_changes/get_untracked_paths", "dulwich.worktree.WorkTree.unstage"]
    return [
        KCheck("C18a.checkout_restage", h_checkout_restage, parts=[{"first": k} for k in range(len(KINDS))], encoded=enc,
               bounds="every tree over the paths {f, d/g, a non-UTF-8 name, d/h}, each absent or a regular file, executable, "
                      "dangling symlink, symlink to the directory d, empty file or longer file; status checked in modes all and "
                      "normal; real work tree on /dev/shm",
               outside="large files; line-ending conversion (excluded by the property); more paths", tiers=q),
        KCheck("C18b.switch", h_switch, parts=[{"first": a, "second": b} for a in range(4) for b in range(4)], encoded=enc,
               bounds="every pair of trees over {f, d/g, non-UTF-8 name} with entries absent / file / executable / symlink "
                      "(mode-only changes with the same blob, type changes, additions and removals), and in either tree the "
                      "directory d may instead be a regular file d (file <-> directory replacements)",
               outside="dirty work trees before the switch", tiers=q),
        KCheck("C18c.status_after_edits", h_edits, parts=[{"e1": k} for k in range(len(EDITS))], encoded=enc,
               bounds="HEAD = {f, d/g (file, executable or symlink), a non-UTF-8 name}; one or two edits on one target path from {modify same size, "
                      "modify other size, chmod, delete, add untracked, replace by symlink or directory, stage, stage directly, add all, unstage, rm --cached, "
                      "restore by hand, reset --hard}, optionally followed by restoring the committed file by hand and / or reset --hard "
                      "(after which index and work tree must equal HEAD); every "
                      "edit gets a distinct timestamp",
               outside="racy timestamps (excluded by assumption); agreement with git status beyond "
                       "the reference three-way comparison", tiers=q),
    ]


# ---------------------------------------------------------------------------------------------
# (d) untracked files in the default ("normal") mode: wholly untracked directories are reported as "dir/"
_b18d = checks
UPOOL = [b"lib/a", b"lib/sub/b", b"src/util/x", b"src/new.py", b"other/y", b"top", b"tools/t"]


def h_untracked_normal(eng):
    """HEAD = {lib.txt, src/util.py, tools-old/k}; any subset of 7 untracked files is created; status(untracked_files=
    "normal") lists exactly: each untracked file whose directory holds tracked files, and for the others the topmost
    directory without tracked files, once, with a trailing slash (git's rule)"""
    L = {b"lib.txt": KINDS[1], b"src/util.py": KINDS[1], b"tools-old/k": KINDS[1]}
    d = scratch("c18u")
    try:
        r = Repo.init(d)
        tid = _mk_tree(r.object_store, L)
        cid = _commit(r, tid, [], 0)
        r.refs[b"refs/heads/master"] = cid
        r.refs.set_symbolic_ref(b"HEAD", b"refs/heads/master")
        porcelain.reset(r, "hard", cid)
        made = [p for i, p in enumerate(UPOOL) if bool(eng.bool(f"untracked{i}"))]
        for p in made:
            full = os.path.join(os.fsencode(d), p)
            os.makedirs(os.path.dirname(full), exist_ok=True)
            with open(full, "wb") as fh:
                fh.write(b"u\n")
        tracked_dirs = {b""}
        for p in L:
            parts = p.split(b"/")[:-1]
            for i in range(1, len(parts) + 1):
                tracked_dirs.add(b"/".join(parts[:i]))
        want = set()
        for p in made:
            parts = p.split(b"/")
            rep = p
            for i in range(1, len(parts)):
                anc = b"/".join(parts[:i])
                if anc not in tracked_dirs:
                    rep = anc + b"/"
                    break
            want.add(rep)
        s = porcelain.status(r, untracked_files="normal")
        got = sorted(os.fsencode(u) if isinstance(u, str) else u for u in s.untracked)
        eng.prove(got == sorted(want), f"untracked (normal mode) after creating {made}: got {got}, want {sorted(want)}")
        s2 = porcelain.status(r, untracked_files="all")
        got2 = sorted(os.fsencode(u) if isinstance(u, str) else u for u in s2.untracked)
        eng.prove(got2 == sorted(made), f"untracked (all) after creating {made}: got {got2}")
        eng.prove(not s.unstaged and not any(s.staged.values()), "nothing else is reported")
        r.close()
    finally:
        shutil.rmtree(d, ignore_errors=True)


def checks(tier):
    q = ("quick", "thorough")
    return _b18d(tier) + [
        KCheck("C18d.untracked_normal", h_untracked_normal,
               encoded=["dulwich.porcelain.status", "dulwich.porcelain.get_untracked_paths"],
               bounds="HEAD = {lib.txt, src/util.py, tools-old/k}; every subset of the untracked files {lib/a, lib/sub/b, src/util/x, "
                      "src/new.py, other/y, top, tools/t} (directories whose names are byte prefixes of tracked siblings "
                      "included); modes normal and all", outside="ignore rules; nested repositories", tiers=q),
    ]
