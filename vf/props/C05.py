"""C05 — fetch, clone and push transfer a complete, byte-identical object closure."""
from __future__ import annotations

import shutil

from vf.common import KCheck
from vf.interpose import scratch

from dulwich.objects import Blob, Tree, Commit, Tag
from dulwich.object_store import MemoryObjectStore, MissingObjectFinder
from dulwich.repo import Repo
from dulwich.client import LocalGitClient

PROPERTY = "C05"
WHO = b"V <v@v>"


def _graph(eng, gitlink=True, tag_target=None):
    b0, b1 = Blob.from_string(b"zero\n"), Blob.from_string(b"one\n")
    t0 = Tree()
    t0.add(b"f0", 0o100644, b0.id)

    def commit(i, tree, parents):
        c = Commit()
        c.tree = tree.id
        c.parents = [p.id for p in parents]
        c.author = c.committer = WHO
        c.author_time = c.commit_time = 1000 + i
        c.author_timezone = c.commit_timezone = 0
        c.message = b"c%d" % i
        return c
    c0 = commit(0, t0, [])
    t1 = Tree()
    t1.add(b"f1", 0o100644, b1.id)
    t1.add(b"sub", 0o040000, t0.id)
    if gitlink and eng.bool("t1_gitlink_to_c0"):
        t1.add(b"mod", 0o160000, c0.id)          # submodule pointer whose target also is a commit of this history
    trees = [t0, t1]
    c1 = commit(1, trees[eng.choice("c1_tree", 2)], [c0] if eng.bool("c1_p0") else [])
    ps = [p for p, nm in ((c0, "c2_p0"), (c1, "c2_p1")) if eng.bool(nm)]
    c2 = commit(2, trees[eng.choice("c2_tree", 2)], ps)
    commits = [c0, c1, c2]
    tg = Tag()
    tg.name = b"t"
    tg.tagger = WHO
    tg.tag_time = 5
    tg.tag_timezone = 0
    tg.message = b"m"
    tgt = commits[tag_target if tag_target is not None else eng.choice("tag_target", 3)]
    tg.object = (Commit, tgt.id)
    tg2 = Tag()
    tg2.name = b"t2"
    tg2.tagger = WHO
    tg2.tag_time = 6
    tg2.tag_timezone = 0
    tg2.message = b"m2"
    tg2.object = (Tag, tg.id)
    objs = [b0, b1, t0, t1] + commits + [tg, tg2]
    adj = {}
    for o in objs:
        if isinstance(o, Commit):
            adj[o.id] = [o.tree] + list(o.parents)
        elif isinstance(o, Tree):
            adj[o.id] = [e.sha for e in o.iteritems() if e.mode != 0o160000]
        elif isinstance(o, Tag):
            adj[o.id] = [o.object[1]]
        else:
            adj[o.id] = []
    return objs, commits, [tg, tg2], adj


def _closure(adj, roots):
    seen, todo = set(), list(roots)
    while todo:
        x = todo.pop()
        if x in seen:
            continue
        seen.add(x)
        todo += adj.get(x, [])
    return seen


def h_finder(eng, tag_target=None):
    """MissingObjectFinder: closure(wants) is contained in what is sent plus closure(haves), and nothing outside
    closure(wants) is sent"""
    objs, commits, tags, adj = _graph(eng, tag_target=tag_target)
    store = MemoryObjectStore()
    for o in objs:
        store.add_object(o)
    haves = [c.id for i, c in enumerate(commits) if eng.bool(f"have_c{i}")]
    cand = commits + [tags[1]]
    wants = [o.id for i, o in enumerate(cand) if eng.bool(f"want_{i}")]
    eng.assume(len(wants) > 0)
    sent = [sha for sha, _ in MissingObjectFinder(store, haves, wants)]
    S = set(sent)
    have_cl = _closure(adj, haves)
    want_cl = _closure(adj, wants)
    eng.prove(len(sent) == len(S), "no object is sent twice")
    missing = want_cl - S - have_cl
    eng.prove(not missing, f"every object of closure(wants) is sent or already present (missing: "
                           f"{sorted(type(o).__name__ + ':' + o.id[:6].decode() for o in objs if o.id in missing)})")
    eng.prove(S <= want_cl, "nothing outside the closure of what was asked for is sent")


def h_local_fetch(eng, tag_target=None, branch_at=None):
    """LocalGitClient.fetch between two real repositories: afterwards the receiver holds the complete closure of
    the fetched refs, byte-identical; a receiver that was complete stays complete"""
    objs, commits, tags, adj = _graph(eng, gitlink=False, tag_target=tag_target)
    by_id = {o.id: o for o in objs}
    ds, dt = scratch("c05s"), scratch("c05t")
    src = Repo.init_bare(ds)
    dst = Repo.init_bare(dt)
    try:
        for o in objs:
            src.object_store.add_object(o)
        bk = branch_at if branch_at is not None else eng.choice("branch_at", 3)
        src.refs[b"refs/heads/main"] = commits[bk].id
        if eng.bool("tag_ref"):
            src.refs[b"refs/tags/t2"] = tags[1].id
        if eng.bool("src_packed"):
            src.object_store.pack_loose_objects()
        haves = [c.id for i, c in enumerate(commits) if eng.bool(f"have_c{i}")]
        for s in _closure(adj, haves):
            dst.object_store.add_object(by_id[s])
        for i, h in enumerate(haves):
            dst.refs[b"refs/heads/have%d" % i] = h
        result = LocalGitClient().fetch(ds, dst)
        fetched = [v for k, v in result.refs.items() if v is not None and k != b"HEAD"]
        need = _closure(adj, fetched)
        for s in sorted(need):
            try:
                o = dst.object_store[s]
                eng.prove(o.as_raw_string() == by_id[s].as_raw_string() and o.type_name == by_id[s].type_name,
                          "received object is byte-identical")
            except KeyError:
                eng.fail(f"after a successful fetch the receiver lacks {type(by_id[s]).__name__} {s[:8]!r} reachable "
                         f"from the fetched refs")
        for s in _closure(adj, haves):
            eng.prove(s in dst.object_store, "what the receiver had is still there")
    finally:
        src.close()
        dst.close()
        shutil.rmtree(ds, ignore_errors=True)
        shutil.rmtree(dt, ignore_errors=True)


def checks(tier):
    q = ("quick", "thorough")
    o = "dulwich.object_store."
    return [
        KCheck("C05a.missing_object_finder", h_finder, parts=[{"tag_target": k} for k in range(3)],
               encoded=[o + "MissingObjectFinder", o + "_collect_ancestors", o + "_collect_filetree_revs",
                        o + "_split_commits_and_tags", o + "GraphTraversalReachability"],
               bounds="every history of 3 commits (all parent sets, each commit on either of two trees sharing a subtree and, "
                      "optionally, holding a gitlink whose target is itself a commit of the history), tag and tag-of-tag on any "
                      "commit; haves = any subset of the commits (the receiver holds their closure); wants = any non-empty subset "
                      "of the commits and the tag-of-tag",
               outside="shallow/depth-limited requests; include-tag auto-following; more than 3 commits", tiers=q),
        KCheck("C05b.local_fetch", h_local_fetch, parts=[{"tag_target": k, "branch_at": b} for k in range(3) for b in range(3)],
               encoded=["dulwich.client.LocalGitClient.fetch", "dulwich.repo.BaseRepo.fetch_pack_data/find_missing_objects",
                        o + "MissingObjectFinder", "dulwich.pack.write_pack_from_container/PackData", o + "DiskObjectStore.add_pack"],
               bounds="same histories (without gitlinks) in a real source repository (loose or packed, branch at any commit, "
                      "optional tag ref); receiver holding the closure of any subset of the commits; full local fetch",
               outside="network transports, C git peers, protocol capabilities (in-process path only); depth", time_budget=2400,
               tiers=q),
    ]


# ---------------------------------------------------------------------------------------------
# (c) the server never sends what it did not advertise
from io import BytesIO
from dulwich.protocol import Protocol, pkt_line
from dulwich.server import UploadPackHandler, DictBackend
from dulwich.errors import GitProtocolError, HangupException


def h_upload_pack(eng, branch_at=0):
    """upload-pack over an in-memory pkt-line stream: every object in the pack that is sent is reachable from the
    advertised refs, and a request that names an unadvertised object on any want line is refused"""
    objs, commits, tags, adj = _graph(eng, gitlink=False, tag_target=0)
    d = scratch("c05u")
    repo = Repo.init_bare(d)
    try:
        for o in objs:
            repo.object_store.add_object(o)
        tip = commits[branch_at]
        repo.refs[b"refs/heads/main"] = tip.id
        advertised = {tip.id}
        allowed = _closure(adj, advertised)
        # candidate wants: the advertised tip, and commits that may or may not be reachable from it
        cand = [c.id for c in commits]
        nw = 1 + eng.choice("extra_wants", 2)
        wants = [cand[eng.choice(f"want{i}", 3)] for i in range(nw)]
        lines = []
        for i, w in enumerate(wants):
            lines.append(pkt_line(b"want " + w + (b" ofs-delta side-band-64k thin-pack" if i == 0 else b"") + b"\n"))
        req = b"".join(lines) + pkt_line(None) + pkt_line(b"done\n")
        inf = BytesIO(req)
        out = []
        proto = Protocol(inf.read, out.append)
        h = UploadPackHandler(DictBackend({b"/": repo}), [b"/"], proto, stateless_rpc=True)
        refused = False
        try:
            h.handle()
        except (GitProtocolError, HangupException):
            refused = True
        proto._close = None
        raw = b"".join(out)
        frames = []
        from dulwich.protocol import PktLineParser
        try:
            PktLineParser(frames.append).parse(raw)
        except GitProtocolError:
            pass
        data = b"".join(f[1:] for f in frames if f and f[:1] == b"\x01")
        unadvertised = [w for w in wants if w not in advertised]
        if unadvertised:
            eng.prove(refused, "a want for an object that was not advertised is refused, on whichever want line it appears")
        i = data.find(b"PACK")
        if i >= 0:
            from dulwich.object_store import MemoryObjectStore as _M
            rx = _M()
            f = BytesIO(data[i:])
            rx.add_thin_pack(f.read, None)
            sent = set(rx)
            eng.prove(not unadvertised, "no pack is sent for a request naming unadvertised objects")
            eng.prove(sent <= allowed, "every object sent is reachable from the advertised refs")
            eng.prove(_closure(adj, wants) <= sent, "the pack holds the complete closure of the wants (client had nothing)")
        else:
            eng.prove(bool(unadvertised), "a valid request is answered with a pack")
    finally:
        repo.close()
        shutil.rmtree(d, ignore_errors=True)


_c05_base = checks


def checks(tier):
    q = ("quick", "thorough")
    return _c05_base(tier) + [
        KCheck("C05c.upload_pack_wants", h_upload_pack, parts=[{"branch_at": b} for b in range(3)],
               encoded=["dulwich.server.UploadPackHandler.handle", "dulwich.server._ProtocolGraphWalker.determine_wants",
                        "dulwich.server._split_proto_line", "dulwich.object_store.MissingObjectFinder",
                        "dulwich.pack.write_pack_from_container"],
               bounds="same histories; server advertises one branch at any commit; the client sends 1-2 want lines, each naming "
                      "any of the three commits (advertised, reachable-but-unadvertised, unreachable), then done; real "
                      "UploadPackHandler over an in-memory pkt-line stream; the pack sent is unpacked and inspected",
               outside="haves/ack negotiation modes, side-band, shallow, protocol v2, allow-*-sha1-in-want options", tiers=q),
    ]
