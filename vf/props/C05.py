"""C05 — fetch, clone and push transfer a complete, byte-identical object closure."""
from __future__ import annotations

import shutil

from vf.common import KCheck
from vf.interpose import scratch

from dulwich.objects import Blob, Tree, Commit, Tag
from dulwich.object_store import MemoryObjectStore, MissingObjectFinder
from dulwich.repo import Repo
from dulwich.client import LocalGitClient

PROPERTY = "C05"
WHO = b"V <v@v>"


def _graph(eng, gitlink=True, tag_target=None):
    b0, b1 = Blob.from_string(b"zero\n"), Blob.from_string(b"one\n")
    t0 = Tree()
    t0.add(b"f0", 0o100644, b0.id)

    def commit(i, tree, parents):
        c = Commit()
        c.tree = tree.id
        c.parents = [p.id for p in parents]
        c.author = c.committer = WHO
        c.author_time = c.commit_time = 1000 + i
        c.author_timezone = c.commit_timezone = 0
        c.message = b"c%d" % i
        return c
    c0 = commit(0, t0, [])
    t1 = Tree()
    t1.add(b"f1", 0o100644, b1.id)
    t1.add(b"sub", 0o040000, t0.id)
    if gitlink and eng.bool("t1_gitlink_to_c0"):
        t1.add(b"mod", 0o160000, c0.id)          # submodule pointer whose target also is a commit of this history
    trees = [t0, t1]
    c1 = commit(1, trees[eng.choice("c1_tree", 2)], [c0] if eng.bool("c1_p0") else [])
    ps = [p for p, nm in ((c0, "c2_p0"), (c1, "c2_p1")) if eng.bool(nm)]
    c2 = commit(2, trees[eng.choice("c2_tree", 2)], ps)
    commits = [c0, c1, c2]
    tg = Tag()
    tg.name = b"t"
    tg.tagger = WHO
    tg.tag_time = 5
    tg.tag_timezone = 0
    tg.message = b"m"
    tgt = commits[tag_target if tag_target is not None else eng.choice("tag_target", 3)]
    tg.object = (Commit, tgt.id)
    tg2 = Tag()
    tg2.name = b"t2"
    tg2.tagger = WHO
    tg2.tag_time = 6
    tg2.tag_timezone = 0
    tg2.message = b"m2"
    tg2.object = (Tag, tg.id)
    objs = [b0, b1, t0, t1] + commits + [tg, tg2]
    adj = {}
    for o in objs:
        if isinstance(o, Commit):
            adj[o.id] = [o.tree] + list(o.parents)
        elif isinstance(o, Tree):
            adj[o.id] = [e.sha for e in o.iteritems() if e.mode != 0o160000]
        elif isinstance(o, Tag):
            adj[o.id] = [o.object[1]]
        else:
            adj[o.id] = []
    return objs, commits, [tg, tg2], adj


def _closure(adj, roots):
    seen, todo = set(), list(roots)
    while todo:
        x = todo.pop()
        if x in seen:
            continue
        seen.add(x)
        todo += adj.get(x, [])
    return seen


def h_finder(eng, tag_target=None):
    """MissingObjectFinder: closure(wants) is contained in what is sent plus closure(haves), and nothing outside
    closure(wants) is sent"""
    objs, commits, tags, adj = _graph(eng, tag_target=tag_target)
    store = MemoryObjectStore()
    for o in objs:
        store.add_object(o)
    haves = [c.id for i, c in enumerate(commits) if eng.bool(f"have_c{i}")]
    cand = commits + [tags[1]]
    wants = [o.id for i, o in enumerate(cand) if eng.bool(f"want_{i}")]
    eng.assume(len(wants) > 0)
    sent = [sha for sha, _ in MissingObjectFinder(store, haves, wants)]
    S = set(sent)
    have_cl = _closure(adj, haves)
    want_cl = _closure(adj, wants)
    eng.prove(len(sent) == len(S), "no object is sent twice")
    missing = want_cl - S - have_cl
    eng.prove(not missing, f"every object of closure(wants) is sent or already present (missing: "
                           f"{sorted(type(o).__name__ + ':' + o.id[:6].decode() for o in objs if o.id in missing)})")
    eng.prove(S <= want_cl, "nothing outside the closure of what was asked for is sent")


def h_local_fetch(eng, tag_target=None, branch_at=None):
    """LocalGitClient.fetch between two real repositories: afterwards the receiver holds the complete closure of
    the fetched refs, byte-identical; a receiver that was complete stays complete"""
    objs, commits, tags, adj = _graph(eng, gitlink=False, tag_target=tag_target)
    by_id = {o.id: o for o in objs}
    ds, dt = scratch("c05s"), scratch("c05t")
    src = Repo.init_bare(ds)
    dst = Repo.init_bare(dt)
    try:
        for o in objs:
            src.object_store.add_object(o)
        bk = branch_at if branch_at is not None else eng.choice("branch_at", 3)
        src.refs[b"refs/heads/main"] = commits[bk].id
        if eng.bool("tag_ref"):
            src.refs[b"refs/tags/t2"] = tags[1].id
        if eng.bool("src_packed"):
            src.object_store.pack_loose_objects()
        haves = [c.id for i, c in enumerate(commits) if eng.bool(f"have_c{i}")]
        for s in _closure(adj, haves):
            dst.object_store.add_object(by_id[s])
        for i, h in enumerate(haves):
            dst.refs[b"refs/heads/have%d" % i] = h
        result = LocalGitClient().fetch(ds, dst)
        fetched = [v for k, v in result.refs.items() if v is not None and k != b"HEAD"]
        need = _closure(adj, fetched)
        for s in sorted(need):
            try:
                o = dst.object_store[s]
                eng.prove(o.as_raw_string() == by_id[s].as_raw_string() and o.type_name == by_id[s].type_name,
                          "received object is byte-identical")
            except KeyError:
                eng.fail(f"after a successful fetch the receiver lacks {type(by_id[s]).__name__} {s[:8]!r} reachable "
                         f"from the fetched refs")
        for s in _closure(adj, haves):
            eng.prove(s in dst.object_store, "what the receiver had is still there")
    finally:
        src.close()
        dst.close()
        shutil.rmtree(ds, ignore_errors=True)
        shutil.rmtree(dt, ignore_errors=True)


def checks(tier):
    q = ("quick", "thorough")
    o = "dulwich.object_store."
    return [
        KCheck("C05a.missing_object_finder", h_finder, parts=[{"tag_target": k} for k in range(3)],
               encoded=[o + "MissingObjectFinder", o + "_collect_ancestors", o + "_collect_filetree_revs",
                        o + "_split_commits_and_tags", o + "GraphTraversalReachability"],
               bounds="every history of 3 commits (all parent sets, each commit on either of two trees sharing a subtree and, "
                      "optionally, holding a gitlink whose target is itself a commit of the history), tag and tag-of-tag on any "
                      "commit; haves = any subset of the commits (the receiver holds their closure); wants = any non-empty subset "
                      "of the commits and the tag-of-tag",
               outside="shallow/depth-limited requests; include-tag auto-following; more than 3 commits", tiers=q),
        KCheck("C05b.local_fetch", h_local_fetch, parts=[{"tag_target": k, "branch_at": b} for k in range(3) for b in range(3)],
               encoded=["dulwich.client.LocalGitClient.fetch", "dulwich.repo.BaseRepo.fetch_pack_data/find_missing_objects",
                        o + "MissingObjectFinder", "dulwich.pack.write_pack_from_container/PackData", o + "DiskObjectStore.add_pack"],
               bounds="same histories (without gitlinks) in a real source repository (loose or packed, branch at any commit, "
                      "optional tag ref); receiver holding the closure of any subset of the commits; full local fetch",
               outside="network transports, C git peers, protocol capabilities (in-process path only); depth", time_budget=2400,
               tiers=q),
    ]


# ---------------------------------------------------------------------------------------------
# (c) the server never sends what it did not advertise
from io import BytesIO
from dulwich.protocol import Protocol, pkt_line
from dulwich.server import UploadPackHandler, DictBackend
from dulwich.errors import GitProtocolError, HangupException


def h_upload_pack(eng, branch_at=0):
    """upload-pack over an in-memory pkt-line stream: every object in the pack that is sent is reachable from the
    advertised refs, and a request that names an unadvertised object on any want line is refused"""
    objs, commits, tags, adj = _graph(eng, gitlink=False, tag_target=0)
    d = scratch("c05u")
    repo = Repo.init_bare(d)
    try:
        for o in objs:
            repo.object_store.add_object(o)
        tip = commits[branch_at]
        repo.refs[b"refs/heads/main"] = tip.id
        advertised = {tip.id}
        allowed = _closure(adj, advertised)
        # candidate wants: the advertised tip, and commits that may or may not be reachable from it
        cand = [c.id for c in commits]
        nw = 1 + eng.choice("extra_wants", 2)
        wants = [cand[eng.choice(f"want{i}", 3)] for i in range(nw)]
        lines = []
        for i, w in enumerate(wants):
            lines.append(pkt_line(b"want " + w + (b" ofs-delta side-band-64k thin-pack" if i == 0 else b"") + b"\n"))
        req = b"".join(lines) + pkt_line(None) + pkt_line(b"done\n")
        inf = BytesIO(req)
        out = []
        proto = Protocol(inf.read, out.append)
        h = UploadPackHandler(DictBackend({b"/": repo}), [b"/"], proto, stateless_rpc=True)
        refused = False
        try:
            h.handle()
        except (GitProtocolError, HangupException):
            refused = True
        proto._close = None
        raw = b"".join(out)
        frames = []
        from dulwich.protocol import PktLineParser
        try:
            PktLineParser(frames.append).parse(raw)
        except GitProtocolError:
            pass
        data = b"".join(f[1:] for f in frames if f and f[:1] == b"\x01")
        unadvertised = [w for w in wants if w not in advertised]
        if unadvertised:
            eng.prove(refused, "a want for an object that was not advertised is refused, on whichever want line it appears")
        i = data.find(b"PACK")
        if i >= 0:
            from dulwich.object_store import MemoryObjectStore as _M
            rx = _M()
            f = BytesIO(data[i:])
            rx.add_thin_pack(f.read, None)
            sent = set(rx)
            eng.prove(not unadvertised, "no pack is sent for a request naming unadvertised objects")
            eng.prove(sent <= allowed, "every object sent is reachable from the advertised refs")
            eng.prove(_closure(adj, wants) <= sent, "the pack holds the complete closure of the wants (client had nothing)")
        else:
            eng.prove(bool(unadvertised), "a valid request is answered with a pack")
    finally:
        repo.close()
        shutil.rmtree(d, ignore_errors=True)


_c05_base = checks


def checks(tier):
    q = ("quick", "thorough")
    return _c05_base(tier) + [
        KCheck("C05c.upload_pack_wants", h_upload_pack, parts=[{"branch_at": b} for b in range(3)],
               encoded=["dulwich.server.UploadPackHandler.handle", "dulwich.server._ProtocolGraphWalker.determine_wants",
                        "dulwich.server._split_proto_line", "dulwich.object_store.MissingObjectFinder",
                        "dulwich.pack.write_pack_from_container"],
               bounds="same histories; server advertises one branch at any commit; the client sends 1-2 want lines, each naming "
                      "any of the three commits (advertised, reachable-but-unadvertised, unreachable), then done; real "
                      "UploadPackHandler over an in-memory pkt-line stream; the pack sent is unpacked and inspected",
               outside="haves/ack negotiation modes, side-band, shallow, protocol v2, allow-*-sha1-in-want options", tiers=q),
    ]


# ---------------------------------------------------------------------------------------------
# (d) negotiation on a receiver with incomplete history: it never claims to have what it does not hold
_c05_d = checks


def h_graph_walker(eng, n=3):
    """a receiver holding a symbolic part of a history (commits below a boundary missing, the boundary recorded in
    .git/shallow or not): every id its graph walker offers as a 'have' names a commit the receiver really holds, under
    every acknowledgement pattern"""
    d = scratch("c05w")
    try:
        r = Repo.init_bare(d)
        b = Blob.from_string(b"x\n")
        t = Tree()
        t.add(b"f", 0o100644, b.id)
        r.object_store.add_object(b)
        r.object_store.add_object(t)
        cs = []
        for i in range(n):
            c = Commit()
            c.tree = t.id
            c.parents = [cs[p].id for p in range(i) if bool(eng.bool(f"c{i}_p{p}"))]
            c.author = c.committer = b"V <v@v>"
            c.author_time = c.commit_time = 1000 + i
            c.author_timezone = c.commit_timezone = 0
            c.message = b"c%d" % i
            cs.append(c)
        present = [bool(eng.bool(f"holds_c{i}")) for i in range(n)]
        eng.assume(any(present))
        for i, c in enumerate(cs):
            if present[i]:
                r.object_store.add_object(c)
        boundary = [c.id for i, c in enumerate(cs) if present[i] and any(not present[cs.index(p_)] for p_ in
                                                                          [x for x in cs if x.id in c.parents])]
        if boundary and bool(eng.bool("boundary_recorded_as_shallow")):
            r.update_shallow(boundary, [])
        heads = [c.id for i, c in enumerate(cs) if present[i] and bool(eng.bool(f"head_c{i}"))]
        eng.assume(bool(heads))
        w = r.get_graph_walker(heads)
        offered = []
        for step in range(2 * n + 2):
            try:
                sha = next(w)
            except StopIteration:
                break
            if sha is None:
                break
            offered.append(sha)
            if step < 3 and bool(eng.bool(f"ack{step}")):
                w.ack(sha)
        held = {c.id for i, c in enumerate(cs) if present[i]}
        tag = f"[parents={[[cs.index(x) for x in cs if x.id in c.parents] for c in cs]} holds={present} heads={[i for i, c in enumerate(cs) if c.id in heads]}]"
        for sha in offered:
            eng.prove(sha in held, f"{tag} the walker offered a 'have' for commit {[c.id for c in cs].index(sha) if sha in [c.id for c in cs] else sha} that the receiver does not hold")
        eng.prove(len(offered) == len(set(offered)), f"{tag} no commit offered twice")
        r.close()
    finally:
        shutil.rmtree(d, ignore_errors=True)


def checks(tier):
    q = ("quick", "thorough")
    return _c05_d(tier) + [
        KCheck("C05d.graph_walker", h_graph_walker,
               encoded=["dulwich.object_store.ObjectStoreGraphWalker.next/ack", "dulwich.repo.BaseRepo.get_graph_walker/get_parents"],
               bounds="every history of 3 commits (all parent sets), every subset of commits held by the receiver, boundary "
                      "recorded in .git/shallow or not, every non-empty set of held heads, every acknowledgement pattern over "
                      "the first 3 offers", outside="longer histories; tags as heads", tiers=q),
    ]


# ---------------------------------------------------------------------------------------------
# (e) depth-limited fetches served by upload-pack to a client that is already shallow
_c05_e = checks


def h_upload_pack_shallow(eng):
    """server history c0<-c1<-c2 (main), c1<-c3 (side), every commit with its own tree and blob.  The client fetched main
    at depth d1 before (so it holds the commits within d1 of c2 and is shallow at the boundary); now it wants side with
    depth d2, announcing its shallow commits and any subset of its commits as haves: afterwards it holds every object of
    the commits within d2 of side (what it had plus the pack), and the pack holds nothing outside side's closure"""
    from dulwich.protocol import PktLineParser
    from dulwich.object_store import MemoryObjectStore as _M
    d = scratch("c05s")
    repo = Repo.init_bare(d)
    try:
        cs, per = [], []
        for i, parents in enumerate(([], [0], [1], [1])):
            b = Blob.from_string(b"blob of c%d\n" % i)
            t = Tree()
            t.add(b"f%d" % i, 0o100644, b.id)
            c = Commit()
            c.tree = t.id
            c.parents = [cs[p].id for p in parents]
            c.author = c.committer = b"V <v@v>"
            c.author_time = c.commit_time = 1000 + i
            c.author_timezone = c.commit_timezone = 0
            c.message = b"c%d" % i
            for o in (b, t, c):
                repo.object_store.add_object(o)
            cs.append(c)
            per.append({b.id, t.id, c.id})
        repo.refs[b"refs/heads/main"] = cs[2].id
        repo.refs[b"refs/heads/side"] = cs[3].id
        d1 = 1 + eng.choice("client_depth_of_main_minus_1", 3)
        d2 = 1 + eng.choice("requested_depth_of_side_minus_1", 3)
        chain_main = [2, 1, 0]
        chain_side = [3, 1, 0]
        held_commits = chain_main[:d1]
        client_objs = set().union(*[per[i] for i in held_commits])
        client_shallow = [cs[held_commits[-1]].id] if d1 < 3 else []
        haves = [cs[i].id for k, i in enumerate(held_commits) if bool(eng.bool(f"announce_have_{k}"))]
        lines = [pkt_line(b"want " + cs[3].id + b" ofs-delta side-band-64k thin-pack shallow\n")]
        for s_ in client_shallow:
            lines.append(pkt_line(b"shallow " + s_ + b"\n"))
        lines.append(pkt_line(b"deepen %d\n" % d2))
        lines.append(pkt_line(None))
        for h_ in haves:
            lines.append(pkt_line(b"have " + h_ + b"\n"))
        lines.append(pkt_line(b"done\n"))
        inf = BytesIO(b"".join(lines))
        out = []
        proto = Protocol(inf.read, out.append)
        h = UploadPackHandler(DictBackend({b"/": repo}), [b"/"], proto, stateless_rpc=True)
        tag = f"[client has main at depth {d1}, shallow {[x[:6] for x in client_shallow]}, haves {[x[:6] for x in haves]}; wants side, deepen {d2}]"
        try:
            h.handle()
        except (GitProtocolError, HangupException) as e:
            eng.fail(f"{tag} a valid depth-limited request was refused: {e}")
            return
        raw = b"".join(out)
        frames = []
        try:
            PktLineParser(frames.append).parse(raw)
        except GitProtocolError:
            pass
        new_shallow = {f[8:48] for f in frames if f and f.startswith(b"shallow ")}
        data = b"".join(f[1:] for f in frames if f and f[:1] == b"\x01")
        i = data.find(b"PACK")
        sent = set()
        if i >= 0:
            rx = _M()
            for o_ in client_objs:
                rx.add_object(repo.object_store[o_])
            f = BytesIO(data[i:])
            rx.add_thin_pack(f.read, None)
            sent = set(rx) - client_objs
        needed = set().union(*[per[k] for k in chain_side[:d2]])
        missing = needed - client_objs - sent
        eng.prove(not missing, f"{tag} after the fetch the client lacks {sorted(x[:6] for x in missing)} of the commits within the "
                               f"requested depth (pack had {len(sent)} new objects, server said shallow {[x[:6] for x in new_shallow]})")
        allowed = set().union(*[per[k] for k in chain_side])
        eng.prove(sent <= allowed, f"{tag} the pack holds nothing outside the closure of what was asked for")
        if d2 < 3 and cs[chain_side[d2 - 1]].id not in client_shallow:
            eng.prove(cs[chain_side[d2 - 1]].id in new_shallow or chain_side[d2 - 1] in held_commits[:-1] or d1 == 3,
                      f"{tag} the new boundary commit is announced as shallow")
    finally:
        repo.close()
        shutil.rmtree(d, ignore_errors=True)


def checks(tier):
    q = ("quick", "thorough")
    return _c05_e(tier) + [
        KCheck("C05e.upload_pack_shallow", h_upload_pack_shallow,
               encoded=["dulwich.server.UploadPackHandler.handle", "dulwich.server._ProtocolGraphWalker._handle_shallow_request",
                        "dulwich.repo.BaseRepo.find_missing_objects", "dulwich.object_store.find_shallow/MissingObjectFinder"],
               bounds="server history c0<-c1<-c2 (main), c1<-c3 (side); the client holds main at depth 1, 2 or completely, announces its "
                      "shallow commits and any subset of its commits as haves, and asks for side with depth 1, 2 or 3; the real "
                      "upload-pack handler over an in-memory pkt-line stream", outside="deepen-since / deepen-not; protocol v2; "
                      "network transports", tiers=q),
    ]


# ---------------------------------------------------------------------------------------------
# (f) the wire client's request writer: a shallow receiver always declares its boundary
_c05_f = checks


def h_client_request(eng):
    """_handle_upload_pack_head writes the fetch request of the wire clients.  Receiver: a repository holding a symbolic
    part of the history c0<-c1<-c2 (main), c1<-c3 (side) with its boundary in .git/shallow; depth none / 1 / 2; protocol
    v0 and v2: every commit announced as 'have' whose parents the receiver lacks is declared with a 'shallow' line, the
    lines come in protocol order, and feeding the very request to the real upload-pack handler leaves the receiver with
    every object of what it asked for (up to the boundaries in force afterwards)"""
    from dulwich.client import _handle_upload_pack_head
    from dulwich.protocol import PktLineParser
    from dulwich.object_store import MemoryObjectStore as _M
    d, d2 = scratch("c05f"), scratch("c05g")
    server = Repo.init_bare(d)
    client = Repo.init_bare(d2)
    try:
        cs, per = [], []
        for i, parents in enumerate(([], [0], [1], [1])):
            b = Blob.from_string(b"blob of c%d\n" % i)
            t = Tree()
            t.add(b"f%d" % i, 0o100644, b.id)
            c = Commit()
            c.tree = t.id
            c.parents = [cs[p].id for p in parents]
            c.author = c.committer = b"V <v@v>"
            c.author_time = c.commit_time = 1000 + i
            c.author_timezone = c.commit_timezone = 0
            c.message = b"c%d" % i
            for o in (b, t, c):
                server.object_store.add_object(o)
            cs.append(c)
            per.append({b.id, t.id, c.id})
        server.refs[b"refs/heads/main"] = cs[2].id
        server.refs[b"refs/heads/side"] = cs[3].id
        d1 = 1 + eng.choice("client_depth_of_main_minus_1", 3)
        held = [2, 1, 0][:d1]
        for i in held:
            for o_ in per[i]:
                client.object_store.add_object(server.object_store[o_])
        client.refs[b"refs/heads/main"] = cs[2].id
        boundary = [cs[held[-1]].id] if d1 < 3 else []
        if boundary:
            client.update_shallow(boundary, [])
        depth = [None, 1, 2][eng.choice("depth", 3)]
        version = [0, 2][eng.choice("protocol_version_is_2", 2)]
        out = []
        proto = Protocol(lambda n=None: b"", out.append)
        walker = client.get_graph_walker()
        caps = [b"ofs-delta", b"side-band-64k", b"thin-pack", b"shallow", b"multi_ack_detailed"] if version != 2 else [b"fetch=shallow"]
        tag = f"[receiver holds main at depth {d1} (shallow {[x[:6] for x in boundary]}); fetch side, depth {depth}, protocol v{version}]"
        _handle_upload_pack_head(proto, caps, walker, [cs[3].id], None, depth, version)
        frames = []
        PktLineParser(frames.append).parse(b"".join(out))
        lines = [f.rstrip(b"\n") for f in frames if f]
        haves = [l[5:] for l in lines if l.startswith(b"have ")]
        shallows = [l[8:] for l in lines if l.startswith(b"shallow ")]
        for h_ in haves:
            eng.prove(h_ in client.object_store, f"{tag} announced have {h_[:6]!r} is held")
        for b_ in boundary:
            if b_ in haves or depth is not None:
                eng.prove(b_ in shallows, f"{tag} the receiver's boundary {b_[:6]!r} is declared with a 'shallow' line "
                                          f"(request: {[l[:14] for l in lines]})")
        kinds = [l.split(b" ")[0] for l in lines]
        order = {b"want": 0, b"shallow": 1, b"deepen": 2, b"have": 3, b"done": 4}
        ranks = [order.get(k, 9) for k in kinds]
        eng.prove(ranks == sorted(ranks) and kinds[-1] == b"done", f"{tag} request lines in protocol order: {kinds}")
        if version != 2:
            # the same bytes, served by the real upload-pack handler (stateless): what the receiver ends up with
            inf = BytesIO(b"".join(out))
            sout = []
            sp = Protocol(inf.read, sout.append)
            h = UploadPackHandler(DictBackend({b"/": server}), [b"/"], sp, stateless_rpc=True)
            try:
                h.handle()
            except (GitProtocolError, HangupException) as e:
                eng.fail(f"{tag} the server refuses the request dulwich's client wrote: {e}")
                return
            fr = []
            try:
                PktLineParser(fr.append).parse(b"".join(sout))
            except GitProtocolError:
                pass
            data = b"".join(f[1:] for f in fr if f and f[:1] == b"\x01")
            i = data.find(b"PACK")
            have_objs = set(client.object_store)
            if i >= 0:
                rx = _M()
                for o_ in have_objs:
                    rx.add_object(client.object_store[o_])
                rx.add_thin_pack(BytesIO(data[i:]).read, None)
                have_objs = set(rx)
            new_shallow = {f[8:48] for f in fr if f and f.startswith(b"shallow ")}
            stops = set(boundary) | new_shallow
            # everything reachable from side, not descending below a commit that is (now) a boundary
            need, todo = set(), [3]
            while todo:
                k = todo.pop()
                need |= per[k]
                if cs[k].id not in stops:
                    todo += [cs.index(x) for x in cs if x.id in cs[k].parents]
            missing = need - have_objs
            eng.prove(not missing, f"{tag} after the fetch the receiver lacks {sorted(x[:6] for x in missing)} although no boundary "
                                   f"covers them (boundaries {[x[:6] for x in stops]})")
    finally:
        server.close()
        client.close()
        shutil.rmtree(d, ignore_errors=True)
        shutil.rmtree(d2, ignore_errors=True)


def checks(tier):
    q = ("quick", "thorough")
    return _c05_f(tier) + [
        KCheck("C05f.client_request", h_client_request,
               encoded=["dulwich.client._handle_upload_pack_head", "dulwich.object_store.ObjectStoreGraphWalker", "dulwich.server.UploadPackHandler.handle"],
               bounds="receiver holding main at depth 1, 2 or completely (boundary in .git/shallow); fetch of side with depth none, 1 "
                      "or 2; protocol v0 and v2 request syntax; for v0 the request bytes are served by the real upload-pack handler "
                      "in-process and the receiver's completeness is checked against the boundaries in force",
               outside="sockets, subprocess and HTTP transports themselves; C git as the peer; deepen-since / deepen-not", tiers=q),
    ]


# ---------------------------------------------------------------------------------------------
# (g) push and clone directions of the in-process path: the receiver ends up complete for what was transferred
_c05_g = checks


def _alien():
    """a root commit the sender has never seen, sharing the history's blob b0 / tree t0 (so the receiver can hold content the
    sender must not assume it lacks or has on the word of an id it cannot resolve)"""
    b0 = Blob.from_string(b"zero\n")
    t0 = Tree()
    t0.add(b"f0", 0o100644, b0.id)
    c = Commit()
    c.tree = t0.id
    c.parents = []
    c.author = c.committer = WHO
    c.author_time = c.commit_time = 77
    c.author_timezone = c.commit_timezone = 0
    c.message = b"alien"
    return [b0, t0, c]


def h_local_push(eng, tag_target=None, branch_at=None):
    """LocalGitClient.send_pack fed by the sender's own generate_pack_data (what porcelain.push does): for every history,
    every complete part of it the receiver already holds (plus, optionally, a ref to a commit the sender has never seen),
    pushing the branch (and optionally the tag-of-tag) leaves the receiver with the complete, byte-identical closure of every
    ref the push reports as updated; what it had is still there"""
    objs, commits, tags, adj = _graph(eng, gitlink=False, tag_target=tag_target)
    by_id = {o.id: o for o in objs}
    ds, dt = scratch("c05ps"), scratch("c05pt")
    src = Repo.init_bare(ds)
    dst = Repo.init_bare(dt)
    try:
        for o in objs:
            src.object_store.add_object(o)
        bk = branch_at if branch_at is not None else eng.choice("branch_at", 3)
        src.refs[b"refs/heads/main"] = commits[bk].id
        push_tag = eng.bool("push_tag")
        haves = [c.id for i, c in enumerate(commits) if eng.bool(f"have_c{i}")]
        for s in _closure(adj, haves):
            dst.object_store.add_object(by_id[s])
        for i, h in enumerate(haves):
            dst.refs[b"refs/heads/have%d" % i] = h
        if eng.bool("dst_has_alien"):
            al = _alien()
            for o in al:
                dst.object_store.add_object(o)
            dst.refs[b"refs/heads/alien"] = al[-1].id
        if eng.bool("dst_packed"):
            dst.object_store.pack_loose_objects()
        before = set(dst.object_store)
        new = {b"refs/heads/main": commits[bk].id}
        if push_tag:
            new[b"refs/tags/t2"] = tags[1].id

        def update_refs(refs):
            refs.update(new)
            return refs
        res = LocalGitClient().send_pack(dt, update_refs, src.generate_pack_data)
        dst.close()
        dst = Repo(dt)
        for ref, val in new.items():
            if (res.ref_status or {}).get(ref) is None:
                eng.prove(dst.refs[ref] == val, f"push reported success for {ref!r}")
        need = _closure(adj, [v for k, v in dst.refs.as_dict().items() if v in by_id])
        for s in sorted(need):
            try:
                o = dst.object_store[s]
                eng.prove(o.as_raw_string() == by_id[s].as_raw_string() and o.type_name == by_id[s].type_name,
                          "pushed object is byte-identical")
            except KeyError:
                eng.fail(f"after a successful push the receiver lacks {type(by_id[s]).__name__} {s[:8]!r} reachable from its refs")
        for s in before:
            eng.prove(s in dst.object_store, "what the receiver had is still there")
        sent = set(dst.object_store) - before
        eng.prove(sent <= _closure(adj, list(new.values())), "nothing outside the closure of the pushed refs was transferred")
    finally:
        src.close()
        dst.close()
        shutil.rmtree(ds, ignore_errors=True)
        shutil.rmtree(dt, ignore_errors=True)


def h_local_clone(eng, tag_target=None, branch_at=None):
    """LocalGitClient.clone of a source whose branch may sit at any commit, with an optional tag-of-tag ref and a second
    branch: the clone holds the complete, byte-identical closure of every ref it ends up with, and every ref it has names an
    object of the source"""
    objs, commits, tags, adj = _graph(eng, gitlink=False, tag_target=tag_target)
    by_id = {o.id: o for o in objs}
    ds, dt = scratch("c05cs"), scratch("c05ct")
    src = Repo.init_bare(ds)
    dst = None
    try:
        for o in objs:
            src.object_store.add_object(o)
        src.refs[b"refs/heads/main"] = commits[branch_at if branch_at is not None else eng.choice("branch_at", 3)].id
        src.refs.set_symbolic_ref(b"HEAD", b"refs/heads/main")
        if eng.bool("tag_ref"):
            src.refs[b"refs/tags/t2"] = tags[1].id
        if eng.bool("side_ref"):
            src.refs[b"refs/heads/side"] = commits[eng.choice("side_at", 3)].id
        if eng.bool("src_packed"):
            src.object_store.pack_loose_objects()
        dst = LocalGitClient().clone(ds, dt, mkdir=False, bare=eng.bool("bare"))
        refs = dst.refs.as_dict()
        eng.prove(any(v == src.refs[b"refs/heads/main"] for v in refs.values()), "the clone has a ref at the source's branch")
        for k, v in refs.items():
            eng.prove(v in by_id, f"clone ref {k!r} names an object of the source")
        for s in sorted(_closure(adj, [v for v in refs.values() if v in by_id])):
            try:
                o = dst.object_store[s]
                eng.prove(o.as_raw_string() == by_id[s].as_raw_string(), "cloned object is byte-identical")
            except KeyError:
                eng.fail(f"the clone lacks {type(by_id[s]).__name__} {s[:8]!r} reachable from its refs")
        if refs.get(b"refs/tags/t2"):
            eng.prove(refs[b"refs/tags/t2"] == tags[1].id, "tag ref cloned unpeeled")
    finally:
        src.close()
        if dst is not None:
            dst.close()
        shutil.rmtree(ds, ignore_errors=True)
        shutil.rmtree(dt, ignore_errors=True)


def checks(tier):
    q = ("quick", "thorough")
    return _c05_g(tier) + [
        KCheck("C05g.local_push", h_local_push, parts=[{"tag_target": k, "branch_at": b} for k in range(3) for b in range(3)],
               encoded=["dulwich.client.LocalGitClient.send_pack", "dulwich.repo.BaseRepo.generate_pack_data",
                        "dulwich.object_store.MissingObjectFinder", "dulwich.pack.write_pack_from_container",
                        "dulwich.object_store.DiskObjectStore.add_pack_data"],
               bounds="every history of 3 commits (all parent sets, two trees sharing a subtree, tag and tag-of-tag on any commit) "
                      "in a real source repository (loose objects); receiver holding the closure of any subset of the commits "
                      "(loose or packed) and optionally a branch at a commit the sender has never seen that shares content with the "
                      "history; push of the branch at any commit, with or without the tag-of-tag",
               outside="receive-pack over pkt-line with thin packs (C06a/C02h cover its status and pack completion); network "
                       "transports; C git peers", time_budget=2400, tiers=q),
        KCheck("C05h.local_clone", h_local_clone, parts=[{"tag_target": k, "branch_at": b} for k in range(3) for b in range(3)],
               encoded=["dulwich.client.LocalGitClient.clone", "dulwich.client.LocalGitClient.fetch", "dulwich.repo.BaseRepo.fetch_pack_data",
                        "dulwich.object_store.MissingObjectFinder", "dulwich.repo.Repo._init_maybe_bare/reset_index"],
               bounds="same histories; source branch at any commit, optional tag-of-tag ref, optional second branch at any commit, "
                      "loose or packed; bare and non-bare clone (with checkout)",
               outside="depth-limited and filtered clones; network transports; bundle URIs", time_budget=2400, tiers=q),
    ]
