"""C11 — index file: varints, v4 path compression, cache entries, ordering."""
from __future__ import annotations

import io

from vf.common import KCheck
from vf.ksym.core import And, Or, Not, Ite
from vf.ksym.sbytes import SymBytes, SymBytesIO, _out, elems_of

import dulwich.index as IX

PROPERTY = "C11"


def ref_git_varint(v):
    """git varint.c encode_varint (the 'offset' encoding: big-endian groups with +1 bias); concrete int"""
    out = [v & 127]
    v >>= 7
    while v:
        v -= 1
        out.insert(0, 128 | (v & 127))
        v >>= 7
    return out


def ref_git_varint_decode(e):
    """git varint.c decode_varint over an element list -> (value, consumed)"""
    i = 0
    c = e[i]
    i += 1
    val = c & 127
    while c & 128:
        val = val + 1
        val = (val << 7)
        c = e[i]
        i += 1
        val = val + (c & 127)
    return val, i


def h_varint(eng):
    """_decode_varint(_encode_varint(v)) == v and the bytes are git's varint.c encoding"""
    v = eng.int("v", 0, 2 ** 63 - 1)
    enc = IX._encode_varint(v)
    e = elems_of(enc)
    dec, pos = IX._decode_varint(enc, 0)
    eng.observe("enc", enc)
    eng.prove(And(dec == v, pos == len(e)), "dulwich reads back its own varint")
    if eng.known("C11-varint-not-git"):
        eng.assume(v < 128)
    gv, gp = ref_git_varint_decode(e)
    eng.prove(And(gv == v, gp == len(e)), "git's decode_varint reads the same value (index v4 interoperability)")


def h_varint_decode_git(eng, n=2):
    """every varint git writes (n bytes) is decoded to git's value by both dulwich decoders"""
    raw = eng.bytes("raw", n)
    e = elems_of(raw)
    for i, b in enumerate(e):
        eng.assume((b & 0x80 != 0) == (i < n - 1))
    gv, _ = ref_git_varint_decode(e)
    if eng.known("C11-varint-not-git"):
        eng.assume(n == 1)
    dv, pos = IX._decode_varint(raw, 0)
    eng.prove(And(dv == gv, pos == n), "_decode_varint agrees with git")


def h_path_compression(eng, pn=3, n=3):
    """_compress_path -> _decompress_path / _decompress_path_from_stream round trip, any (previous, path)"""
    prev = eng.bytes("prev", pn)
    path = eng.bytes("path", n)
    for x in elems_of(prev) + elems_of(path):
        eng.assume(x != 0)
    comp = IX._compress_path(path, prev)
    back, off = IX._decompress_path(comp, 0, prev)
    eng.prove(And(back == path, off == len(comp)), "in-memory decompression returns the path")
    f = io.BytesIO(comp) if eng.mode == "concrete" else SymBytesIO(comp)
    back2, used = IX._decompress_path_from_stream(f, prev)
    eng.prove(And(back2 == path, used == len(comp)), "stream decompression returns the path")
    # the encoding strips exactly the non-common tail (minimal, as git does)
    e = elems_of(comp)
    cp = 0
    pe, qe = elems_of(prev), elems_of(path)
    while cp < min(len(pe), len(qe)) and pe[cp] == qe[cp]:
        cp += 1
    eng.prove(IX._decode_varint(comp, 0)[0] == len(pe) - cp, "strip length is |previous| - |common prefix|")


def _entry(eng, name, sym_stat=True, hi=2 ** 32 - 1):
    def fld(nm, hi_=hi):
        return eng.int(nm, 0, hi_) if sym_stat else 7
    flags = eng.int("flags", 0, 0xFFFF)
    eng.assume((flags & (IX.FLAG_NAMEMASK | IX.FLAG_EXTENDED)) == 0)
    ext = eng.int("ext", 0, 0xFFFF)
    eng.assume((ext & ~(IX.EXTENDED_FLAG_SKIP_WORKTREE | IX.EXTENDED_FLAG_INTEND_TO_ADD)) == 0)
    return IX.SerializedIndexEntry(
        name, (fld("cs"), fld("cn")), (fld("ms"), fld("mn")), fld("dev", 2 ** 64 - 1), fld("ino", 2 ** 64 - 1),
        fld("mode"), fld("uid"), fld("gid"), fld("size"), b"ab" * 20, flags, ext)


def h_cache_entry(eng, version=2, namelen=3, symname=True):
    """write_cache_entry -> read_cache_entry: every field reads back (dev/ino modulo 2^32 as git stores
    them), the reader consumes exactly what was written, layout is git's (name length field, NUL padding
    to a multiple of 8 in v2/v3)"""
    if symname:
        name = eng.bytes("name", namelen)
        for x in elems_of(name):
            eng.assume(x != 0)
    else:
        name = b"n" * namelen
    if eng.known("C11-long-name") and namelen >= 0xFFF:
        eng.assume(False)
    ent = _entry(eng, name)
    prev = b"nn"
    f = io.BytesIO() if eng.mode == "concrete" else SymBytesIO()
    try:
        IX.write_cache_entry(f, ent, version, prev)
    except AssertionError:
        eng.prove(And(version < 3, ent.extended_flags != 0), "writer refuses only extended flags in v2")
        return
    data = f.getvalue()
    tail = b"\x01" * 24                         # what follows the entry in a real file: the reader must stop before it
    g = io.BytesIO(bytes(data) + tail) if eng.mode == "concrete" else SymBytesIO(data + tail)
    back = IX.read_cache_entry(g, version, prev)
    eng.prove(g.tell() == len(data), "reader consumes exactly the written entry")
    eng.prove(back.name == name, "name")
    eng.prove(And(back.ctime[0] == ent.ctime[0], back.ctime[1] == ent.ctime[1],
                  back.mtime[0] == ent.mtime[0], back.mtime[1] == ent.mtime[1]), "times")
    eng.prove(And(back.dev == ent.dev & 0xFFFFFFFF, back.ino == ent.ino & 0xFFFFFFFF), "dev/ino (low 32 bits)")
    eng.prove(And(back.mode == ent.mode, back.uid == ent.uid, back.gid == ent.gid, back.size == ent.size), "mode/uid/gid/size")
    eng.prove(back.sha == ent.sha, "object id")
    eng.prove((back.flags & ~IX.FLAG_EXTENDED) == ent.flags, "flags (stage, assume-valid)")
    eng.prove(back.extended_flags == ent.extended_flags, "extended flags (skip-worktree, intent-to-add)")
    # git layout
    e = elems_of(data)
    fl = (e[60] << 8) | e[61]
    eng.prove((fl & 0xFFF) == min(namelen, 0xFFF), "name length field saturates at 0xFFF")
    if version < 4:
        base = 62 + (2 if ent.extended_flags != 0 else 0)
        eng.prove(len(e) % 8 == 0, "entry padded to a multiple of 8")
        pad = len(e) - base - namelen
        eng.prove(1 <= pad <= 8, "1..8 NUL bytes of padding")
        eng.prove(And(*[x == 0 for x in e[base + namelen:]]), "padding is NUL")


def h_stat_fields(eng):
    """index_entry_from_stat -> write_cache_entry never fails for any 64-bit stat values, and reads back
    modulo 2^32 (git truncates every stat field to 32 bits)"""
    class St:
        pass
    st = St()
    for nm in ("st_dev", "st_ino", "st_uid", "st_gid", "st_size"):
        setattr(st, nm, eng.int(nm, 0, 2 ** 64 - 1))
    st.st_mode = 0o100644
    st.st_ctime_ns = eng.int("ctime_ns", 0, 2 ** 62)
    TIMES = [0, 1, 999_999_999, 10 ** 9, 10 ** 9 + 1, 1_700_000_000 * 10 ** 9 + 123_456_789,
             (2 ** 32 - 1) * 10 ** 9 + 999_999_999, 2 ** 32 * 10 ** 9, 2 ** 62]
    st.st_mtime_ns = TIMES[eng.choice("mtime_case", len(TIMES))]     # boundary values of the sec/nsec split (solver-forked)
    if eng.known("C11-wide-stat"):
        eng.assume(And(st.st_uid < 2 ** 32, st.st_gid < 2 ** 32, st.st_size < 2 ** 32,
                       st.st_ctime_ns < 2 ** 32 * 10 ** 9, st.st_mtime_ns < 2 ** 32 * 10 ** 9))
    ie = IX.index_entry_from_stat(st, b"ab" * 20)
    ser = ie.serialize(b"f", IX.Stage.NORMAL)
    f = io.BytesIO() if eng.mode == "concrete" else SymBytesIO()
    IX.write_cache_entry(f, ser, 2)
    data = f.getvalue()
    g = io.BytesIO(bytes(data)) if eng.mode == "concrete" else SymBytesIO(data)
    back = IX.read_cache_entry(g, 2)
    M = 0xFFFFFFFF
    eng.prove(And(back.size == st.st_size & M, back.uid == st.st_uid & M, back.gid == st.st_gid & M,
                  back.dev == st.st_dev & M, back.ino == st.st_ino & M), "stat fields stored modulo 2^32")
    # stated without a second division (two definitional divisions of one dividend need a uniqueness argument the
    # bit-blaster does not find reliably): seconds * 10^9 + nanoseconds is the original value
    eng.prove(And(back.mtime[0] == (st.st_mtime_ns // 10 ** 9) & M, back.mtime[1] == st.st_mtime_ns % 10 ** 9), "mtime")


def checks(tier):
    q = ("quick", "thorough")
    t = ("thorough",)
    ix = "dulwich.index."
    return [
        KCheck("C11a.varint", h_varint, encoded=[ix + "_encode_varint", ix + "_decode_varint"],
               bounds="every value in [0, 2^63); git reference = varint.c", outside="-",
               assumptions=["reference model of git's varint.c encode_varint/decode_varint"],
               pins=[(0, {"v": 0}), (0, {"v": 127}), (0, {"v": 128}), (0, {"v": 300})], tiers=q),
        KCheck("C11a.varint_decode_git", h_varint_decode_git, parts=[{"n": n} for n in (1, 2, 3)],
               encoded=[ix + "_decode_varint"], bounds="every varint of 1..3 bytes as git writes it", outside="longer",
               tiers=q),
        KCheck("C11b.path_compression", h_path_compression,
               parts=[{"pn": a, "n": b} for a in range(0, 4) for b in range(0, 4)],
               encoded=[ix + "_compress_path", ix + "_decompress_path", ix + "_decompress_path_from_stream",
                        ix + "_encode_varint", ix + "_decode_varint"],
               bounds="every (previous, path) of 0..3 NUL-free bytes each", outside="strip lengths >= 128 (see C11b.long_strip)",
               tiers=q),
        KCheck("C11b.long_strip", h_path_compression, parts=[{"pn": p, "n": 1} for p in (127, 128, 129, 300)],
               encoded=[ix + "_compress_path", ix + "_decompress_path", ix + "_decompress_path_from_stream"],
               bounds="previous paths of 127,128,129,300 symbolic bytes and a 1-byte path (multi-byte strip varints)",
               outside="other lengths (lengths are enumerated around the 7-bit boundary, contents symbolic)",
               max_decisions=900, tiers=q),
        KCheck("C11c.cache_entry", h_cache_entry,
               parts=[{"version": v, "namelen": n} for v in (2, 3, 4) for n in range(1, 10)],
               encoded=[ix + "write_cache_entry", ix + "read_cache_entry", ix + "write_cache_time", ix + "read_cache_time",
                        ix + "_compress_path", ix + "_decompress_path_from_stream"],
               bounds="versions 2,3,4; names of 1..9 symbolic NUL-free bytes (all 8 padding classes); all stat fields symbolic "
                      "32-bit (dev/ino 64-bit); stage/assume-valid flags and skip-worktree/intent-to-add bits symbolic",
               outside="names >= 10 bytes except the lengths in C11c.long_names", tiers=q),
        KCheck("C11c.long_names", h_cache_entry,
               parts=[{"version": v, "namelen": n, "symname": False} for v in (2, 3, 4) for n in (0xFFE, 0xFFF, 0x1000, 0x1001)],
               encoded=[ix + "write_cache_entry", ix + "read_cache_entry"],
               bounds="names of 0xFFE..0x1001 bytes (concrete content, lengths enumerated around the 12-bit field), stat "
                      "fields and flags symbolic",
               outside="other long lengths", tiers=q),
        KCheck("C11f.stat_fields", h_stat_fields,
               encoded=[ix + "index_entry_from_stat", ix + "IndexEntry.serialize", ix + "write_cache_entry", ix + "read_cache_entry"],
               bounds="every 64-bit st_dev/st_ino/st_uid/st_gid/st_size, ctime below 2^62 ns (no failure); mtime from 9 boundary values of the seconds/nanoseconds split (a symbolic mtime needs a uniqueness-of-division argument the bit-blaster does not find reliably)", outside="float times",
               tiers=q),
    ]


# ---------------------------------------------------------------------------------------------
# (e) the trailing checksum detects damage; unknown extensions survive
import os as _os
import shutil as _shutil
from vf.interpose import scratch as _scratch

_b11 = checks


def _mkindex(path, version, ext):
    from dulwich.index import Index, IndexEntry
    idx = Index(path, read=False, version=version)
    for i, name in enumerate([b"a", b"dir/b", b"dir/c\xff"]):
        idx[name] = IndexEntry(ctime=(10 + i, 1), mtime=(20 + i, 2), dev=1, ino=2, mode=0o100644, uid=3, gid=4, size=5 + i,
                               sha=b"%02x" % (i + 1) * 20, flags=0, extended_flags=0)
    idx.write()
    if ext:
        # append an unknown (optional, upper-case) extension before the trailer, as git would
        import hashlib
        import struct
        with open(path, "rb") as f:
            data = f.read()
        body = data[:-20] + b"ZZZZ" + struct.pack(">I", 3) + b"xyz"
        with open(path, "wb") as f:
            f.write(body + hashlib.sha1(body).digest())


def h_trailer(eng, version=2):
    """an index file with one damaged byte (symbolic offset and mask, anywhere before the trailer or inside it) is
    rejected on read, whether or not the reader was opened with skip_hash; an undamaged one reads back"""
    from dulwich.index import Index
    d = _scratch("c11e")
    try:
        path = _os.path.join(d, "index")
        ext = bool(eng.bool("unknown_extension"))
        _mkindex(path, version, ext)
        with open(path, "rb") as f:
            data = bytearray(f.read())
        skip = bool(eng.bool("reader_skip_hash"))
        if eng.bool("damage"):
            pos = eng.choice("offset", len(data))
            data[pos] ^= [0x01, 0x80, 0xFF][eng.choice("mask", 3)]
            with open(path, "wb") as f:
                f.write(data)
            try:
                idx = Index(path, skip_hash=skip)
                names = list(idx)
            except Exception:
                return
            eng.fail(f"index v{version} with byte {pos} of {len(data)} damaged was accepted (skip_hash={skip}, entries {names})")
        else:
            idx = Index(path, skip_hash=skip)
            eng.prove(list(idx) == [b"a", b"dir/b", b"dir/c\xff"], "undamaged index reads back")
            if ext:
                idx.write()
                with open(path, "rb") as f:
                    eng.prove(b"ZZZZ" in f.read(), "an unknown extension survives read + write")
    finally:
        _shutil.rmtree(d, ignore_errors=True)


def checks(tier):
    q = ("quick", "thorough")
    ix = "dulwich.index."
    return _b11(tier) + [
        KCheck("C11e.trailer", h_trailer, parts=[{"version": v} for v in (2, 3, 4)],
               encoded=[ix + "Index.read/write", ix + "read_index_dict_with_version", "dulwich.pack.SHA1Reader.check_sha/SHA1Writer"],
               bounds="a 3-entry index (versions 2,3,4), optionally with an unknown extension; one byte XOR 01/80/FF at any offset "
                      "(symbolic), reader opened with and without skip_hash",
               outside="multi-byte damage that preserves SHA-1 (not constructible); files whose trailer is all zero (skipHash writers)",
               tiers=q),
    ]


# ---------------------------------------------------------------------------------------------
# (g) whole-index round trip: conflict stages with missing sides, order of entries, unknown extensions
_b11g = checks


def h_index_dict(eng, version=2):
    """write_index_dict -> read_index_dict: a conflicted path with any non-empty subset of {ancestor, ours, theirs}
    keeps exactly those stages; entries come out in git's order (name, then stage); a plain entry next to it survives"""
    def ent(n, stage=0):
        return IX.IndexEntry(ctime=(n, 0), mtime=(n, 0), dev=0, ino=0, mode=0o100644, uid=0, gid=0, size=n, sha=(b"%d" % n) * 40,
                             flags=stage << 12, extended_flags=0)
    sides = [bool(eng.bool(f"has_stage{i}")) for i in (1, 2, 3)]
    eng.assume(any(sides))
    names = [b"a", b"a.b", b"a/b", b"b"]
    cname = names[eng.choice("conflicted_name", 4)]
    pname = names[eng.choice("plain_name", 4)]
    eng.assume(cname != pname)
    c = IX.ConflictedIndexEntry(ancestor=ent(1, 1) if sides[0] else None, this=ent(2, 2) if sides[1] else None,
                                other=ent(3, 3) if sides[2] else None)
    entries = {cname: c, pname: ent(7)}
    f = io.BytesIO()
    IX.write_index_dict(f, entries, version=version)
    raw = f.getvalue()
    back, ver, exts = IX.read_index_dict_with_version(io.BytesIO(raw))
    eng.prove(sorted(back) == sorted(entries), "same paths")
    b = back.get(cname)
    eng.prove(isinstance(b, IX.ConflictedIndexEntry), f"conflicted path reads back as a conflict (sides {sides})")
    if isinstance(b, IX.ConflictedIndexEntry):
        for nm, i in (("ancestor", 0), ("this", 1), ("other", 2)):
            e = getattr(b, nm)
            eng.prove((e is not None) == sides[i], f"stage {i + 1} ({nm}) present exactly if it was written (sides {sides})")
            if e is not None and sides[i]:
                eng.prove(e.size == i + 1 and e.sha == (b"%d" % (i + 1)) * 40, f"stage {i + 1} carries its own entry (sides {sides})")
    p = back.get(pname)
    eng.prove(isinstance(p, IX.IndexEntry) and p.size == 7, "the plain entry survives")
    # on-disk order: names ascending (memcmp), stages ascending within a name
    seq = []
    g = io.BytesIO(raw)
    ver2, n = IX.read_index_header(g)
    prev = b""
    for _ in range(n):
        e = IX.read_cache_entry(g, ver2, prev)
        prev = e.name
        seq.append((e.name, (e.flags >> 12) & 3))
    eng.prove(seq == sorted(seq), f"entries are stored in git's order (name, stage): {seq}")
    eng.prove(n == 1 + sum(sides), "one stored entry per stage")


def checks(tier):
    q = ("quick", "thorough")
    return _b11g(tier) + [
        KCheck("C11g.index_dict", h_index_dict, parts=[{"version": v} for v in (2, 3, 4)],
               encoded=["dulwich.index.write_index_dict", "dulwich.index.read_index_dict_with_version", "dulwich.index.read_cache_entry",
                        "dulwich.index.ConflictedIndexEntry"],
               bounds="versions 2-4; one conflicted path with every non-empty subset of the stages 1, 2, 3 and one plain path, names "
                      "from {a, a.b, a/b, b} in every combination; stored order re-read entry by entry",
               outside="several conflicted paths; extensions (not covered)", tiers=q),
    ]
