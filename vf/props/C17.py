"""C17 — checkout never escapes the work tree or enters .git (validators, leading-dir check)."""
from __future__ import annotations

import os
import stat as _stat

from vf.common import KCheck
from vf.ksym.core import And, Or, Not
from vf.ksym.sbytes import SymBytes, _out, elems_of

import dulwich.index as IX

PROPERTY = "C17"


def _lower(x):
    from vf.ksym.core import Ite
    return Ite(And(x >= 65, x <= 90), x + 32, x)


def _eq_ci(e, word):
    """elements e (list) equal `word` (bytes) case-insensitively; non-forking"""
    if len(e) != len(word):
        return False
    return And(*[_lower(x) == w for x, w in zip(e, word.lower())])


def ref_dangerous_default(e):
    """an element that, on a case-insensitive file system, names .git or is '.', '..', ''"""
    return Or(len(e) == 0, _eq_ci(e, b"."), _eq_ci(e, b".."), _eq_ci(e, b".git"))


def ref_dangerous_ntfs(e):
    """NTFS equivalences (git's is_ntfs_dotgit + verify_dotfile): the part before any ':' (alternate data
    stream), with trailing dots and spaces removed, is .git / git~1 (any case), or the whole element
    with trailing dots/spaces removed is '', '.', '..' or .git; applied to every backslash-separated
    segment as well"""
    n = len(e)
    conds = []
    # whole element: strip trailing [. ]*
    for k in range(n + 1):
        tail_ok = And(*[Or(x == 46, x == 32) for x in e[k:]]) if k < n else True
        stem = e[:k]
        for w in (b"", b".", b"..", b".git"):
            if len(stem) == len(w):
                c = And(tail_ok, _eq_ci(stem, w)) if w else And(tail_ok, k == 0)
                conds.append(c)
    # every backslash-separated segment: (.git|git~1) [. ]* (':' anything | end)
    for s in range(n + 1):
        starts = True if s == 0 else (e[s - 1] == 92)
        for w in (b".git", b"git~1"):
            m = len(w)
            if s + m > n:
                continue
            head = _eq_ci(e[s:s + m], w)
            # after the word: dots/spaces up to j, then end / ':' / backslash
            for j in range(s + m, n + 1):
                mid = And(*[Or(x == 46, x == 32) for x in e[s + m:j]]) if j > s + m else True
                if j == n:
                    term = True
                else:
                    term = Or(e[j] == 58, e[j] == 92)
                conds.append(And(starts, head, mid, term))
    return Or(*conds)


def h_validator(eng, n=4, which="default"):
    """validator accepts an element => the element is not dangerous under the file system's equivalence"""
    el = eng.bytes("element", n)
    e = elems_of(el)
    for x in e:
        eng.assume(And(x != 0, x != 47))   # NUL and '/' cannot occur inside a tree entry name component
    if which == "default":
        ok = IX.validate_path_element_default(el)
        danger = ref_dangerous_default(e)
    else:
        ok = IX.validate_path_element_ntfs(el)
        danger = ref_dangerous_ntfs(e)
    eng.observe("accepted", ok)
    if ok:
        eng.prove(Not(danger), "an accepted element is not a spelling of .git / . / .. / empty")
    else:
        # refusing is always safe; but the default validator must not refuse harmless names
        if which == "default":
            eng.prove(danger, "default validator refuses only dangerous names")


def h_validate_path(eng, n=5):
    """validate_path(path) accepted => no '/'-separated component is dangerous (default rules) and the
    path is not absolute"""
    p = eng.bytes("path", n)
    e = elems_of(p)
    for x in e:
        eng.assume(x != 0)
    ok = IX.validate_path(p)
    if not ok:
        return
    # split on '/' using the now-known structure (forks like the implementation did)
    comps, cur = [], []
    for x in e:
        if x == 47:
            comps.append(cur)
            cur = []
        else:
            cur.append(x)
    comps.append(cur)
    for c in comps:
        eng.prove(Not(ref_dangerous_default(c)), "no component of an accepted path is dangerous")
    eng.prove(len(comps[0]) > 0 if comps else False, "an accepted path is not absolute")


class _St:
    def __init__(self, mode):
        self.st_mode = mode


KINDS = {0: None, 1: _stat.S_IFDIR | 0o755, 2: _stat.S_IFLNK | 0o777, 3: _stat.S_IFREG | 0o644}


def h_leading_dirs(eng, depth=3):
    """verify_leading_dirs with a symbolic file system (each leading component absent / directory /
    symlink / file) and an arbitrary prior safe_prefix cache that satisfies its invariant (cached => existed, not a symlink): returns
    normally => no existing leading component is a symlink"""
    names = [b"a", b"b", b"c"][:depth]
    kinds = [eng.choice(f"kind{i}", 4) for i in range(depth)]
    # cache: either a prefix of the real chain (verified directories) or a divergent chain
    plen = eng.choice("cached", depth + 1)
    diverge = bool(eng.bool("diverge"))
    prefix = list(names[:plen])
    shared = plen
    if diverge and plen > 0:
        prefix[-1] = b"zz"
        shared = plen - 1
    for i in range(shared):
        # invariant of the cache: a cached component existed and was not a symlink when verified
        eng.assume(kinds[i] in (1, 3) and all(k == 1 for k in kinds[:i]))
    root = b"/R"
    table = {}
    cur = root
    exists = True
    for i, nm in enumerate(names):
        cur = os.path.join(cur, nm)
        table[cur] = KINDS[kinds[i]] if exists else None
        if kinds[i] != 1:
            exists = False   # below a non-directory nothing exists

    def lstat(p):
        m = table.get(p)
        if m is None:
            raise FileNotFoundError(p)
        return _St(m)
    saved = os.lstat
    os.lstat = lstat
    try:
        try:
            IX.verify_leading_dirs(b"/".join(names) + b"/f", prefix, root)
            refused = False
        except IX.InvalidPathError:
            refused = True
    finally:
        os.lstat = saved
    # the first existing non-directory component decides
    link = False
    for k in kinds:
        if k == 2:
            link = True
            break
        if k != 1:
            break
    if not refused:
        eng.prove(not link, "accepted => no existing leading component is a symlink")
    eng.observe("refused", refused)
    # the cache only ever contains existing, non-symlink components of this chain (closure of the invariant)
    ok = all(i < depth and prefix[i] == names[i] and kinds[i] in (1, 3) and all(k == 1 for k in kinds[:i])
             for i in range(len(prefix)))
    if not refused:
        eng.prove(ok, "safe_prefix holds only verified non-symlink components afterwards")


def checks(tier):
    q = ("quick", "thorough")
    t = ("thorough",)
    ix = "dulwich.index."
    return [
        KCheck("C17a.validator_default", h_validator, parts=[{"n": n, "which": "default"} for n in range(0, 6)],
               encoded=[ix + "validate_path_element_default", ix + "_normalize_path_element_default"],
               bounds="every element of 0..5 bytes without NUL and '/'", outside="longer elements (cannot equal a <=4 byte name)",
               pins=[(4, {"element": list(b".GiT")}), (2, {"element": list(b"..")}), (3, {"element": list(b"git")})],
               tiers=q),
        KCheck("C17a.validator_ntfs", h_validator, parts=[{"n": n, "which": "ntfs"} for n in range(0, 7)],
               encoded=[ix + "validate_path_element_ntfs", ix + "_is_ntfs_dotgit", ix + "_normalize_path_element_ntfs"],
               bounds="every element of 0..6 bytes without NUL and '/' ('.git', 'git~1', trailing dots/spaces, ':' streams, "
                      "backslash segments)",
               outside="elements > 6 bytes (7 thorough); HFS+ ignorable code points (unicodedata is C code: symbolic str not modelled)",
               max_decisions=600,
               pins=[(5, {"element": list(b".git ")}), (5, {"element": list(b"git~1")}), (6, {"element": list(b".git::")}),
                     (6, {"element": list(b"a\\.git")})], tiers=q),
        KCheck("C17a.validator_ntfs_7", h_validator, parts=[{"n": 7, "which": "ntfs"}],
               encoded=[ix + "validate_path_element_ntfs"], bounds="every element of 7 bytes", outside="longer",
               max_decisions=900, time_budget=6000, tiers=t),
        KCheck("C17a.validate_path", h_validate_path, parts=[{"n": n} for n in range(1, 7)],
               encoded=[ix + "validate_path", ix + "validate_path_element_default"],
               bounds="every NUL-free path of 1..6 bytes", outside="longer paths", max_decisions=600, tiers=q),
        KCheck("C17b.leading_dirs", h_leading_dirs, parts=[{"depth": d} for d in (1, 2, 3)],
               encoded=[ix + "verify_leading_dirs"],
               bounds="paths with 1..3 leading components, each symbolically absent/directory/symlink/file, every prior "
                      "safe_prefix cache that is a verified prefix of the chain or diverges from it",
               outside="deeper paths; races between lstat and the later write (TOCTOU is not modelled)",
               assumptions=["os.lstat replaced by a symbolic file-system table"], tiers=q),
    ]


# ---------------------------------------------------------------------------------------------
# (c) composition on a real file system: sequences of checkouts / patches never touch anything outside the work tree
import io as _io
import shutil as _sh2

_b17 = checks
MARK = b"PWNED-BY-TREE-CONTENT\n"


def _snap(directory):
    out = {}
    for dp, dn, fn in os.walk(directory):
        for f in fn + [x for x in dn if os.path.islink(os.path.join(dp, x))]:
            p = os.path.join(dp, f)
            rel = os.path.relpath(p, directory)
            if os.path.islink(p):
                out[rel] = ("link", os.readlink(p))
            else:
                with open(p, "rb") as fh:
                    out[rel] = ("file", fh.read())
    return out


def _trees(store, outside_abs):
    """adversarial tree pool: name -> list of (path, mode, payload)"""
    L = 0o120000
    F = 0o100644
    return {
        "plain": [(b"d/f", F, MARK), (b"x", F, MARK)],
        "d_link_parent": [(b"d", L, b"../outside")],
        "d_link_abs": [(b"d", L, os.fsencode(outside_abs))],
        "d_link_sibling": [(b"d", L, b"../wt-backup")],
        "x_link_sibling_file": [(b"x", L, b"../wt-backup/target"), (b"README", F, b"hello\n")],
        "d_dir": [(b"d/f", F, MARK), (b"d/g/h", F, MARK)],
        "x_link_dotgit_file": [(b"x", L, b".git/config")],
        # a submodule (gitlink) where an earlier tree had a symlink to an existing directory: its placeholder must not be
        # created through the link
        "d_gitlink": [(b"d", 0o160000, b"")],
        "d_link_refs": [(b"d", L, b".git/refs/heads")],
        # a regular file exactly as long as the link targets above it may replace ("../wt-backup/target" = 19 bytes,
        # ".git/config" = 11 bytes): size-based shortcuts must not keep the symlink and write through it
        "x_file_19_bytes": [(b"x", F, MARK[:18] + b"\n")],
        "x_file_11_bytes": [(b"x", F, MARK[:10] + b"\n")],
        "d_link_dotgit": [(b"d", L, b".git")],
        "dotgit_upper": [(b".GIT/hooks/pre-commit", F, MARK)],
        "dotgit_ntfs": [(b".git ./config", F, MARK), (b"git~1/config", F, MARK)],
        "dotdot": [(b"../outside/evil", F, MARK)],
        "absolute": [(b"/" + os.fsencode(outside_abs).lstrip(b"/") + b"/evil", F, MARK)],
    }


def _raw_tree(store, entries):
    """build tree objects without going through path validation (as a hostile sender would)"""
    from dulwich.objects import Blob, Tree
    root = {}
    for path, mode, payload in entries:
        if mode == 0o160000:
            sha = b"7" * 40                     # a commit of the submodule; not present in this repository
        else:
            b = Blob.from_string(payload)
            store.add_object(b)
            sha = b.id
        parts = path.split(b"/")
        cur = root
        for p in parts[:-1]:
            cur = cur.setdefault(p, {})
        cur[parts[-1]] = (mode, sha)

    def build(dct):
        t = Tree()
        for name, v in dct.items():
            if isinstance(v, dict):
                t.add(name, 0o040000, build(v))
            else:
                t.add(name, v[0], v[1])
        store.add_object(t)
        return t.id
    return build(root)


def h_compose(eng, first="plain", steps=3, reduced=False):
    from dulwich import porcelain
    from dulwich.repo import Repo
    from dulwich.objects import Commit
    from vf.interpose import scratch
    base = scratch("c17c")
    try:
        wt, outside, sibling = (os.path.join(base, n) for n in ("wt", "outside", "wt-backup"))
        for p in (wt, outside, sibling):
            os.mkdir(p)
        # canaries, also under every name a pool tree uses below a directory that may become a symlink to here
        os.makedirs(os.path.join(outside, "g"))
        for nm in ("canary", "f", "evil", "x", os.path.join("g", "h")):
            with open(os.path.join(outside, nm), "wb") as f:
                f.write(b"canary\n")
        os.makedirs(os.path.join(sibling, "g"))
        for nm in ("f", os.path.join("g", "h")):
            with open(os.path.join(sibling, nm), "wb") as f:
                f.write(b"canary\n")
        with open(os.path.join(sibling, "target"), "wb") as f:
            f.write(b"original\n")
        r = Repo.init(wt)
        pool = _trees(r.object_store, outside)
        names = sorted(pool)
        before_out, before_sib = _snap(outside), _snap(sibling)
        git_before = {k for k in _snap(os.path.join(wt, ".git")) if not k.startswith("objects")}
        config_before = _snap(os.path.join(wt, ".git")).get("config")
        seq = []
        for s in range(steps):
            nm = first if s == 0 else names[eng.choice(f"tree{s}", len(names))]
            if s == 0:
                mode = "hard"
            elif reduced and s == 1 and steps == 3:
                mode = ["hard", "mixed"][eng.choice(f"mode{s}", 2)]
            elif reduced and s == 2:
                mode = ["hard", "patch", "reset_index"][eng.choice(f"mode{s}", 3)]
            else:
                mode = ["hard", "mixed", "patch", "reset_index"][eng.choice(f"mode{s}", 4)]
            seq.append((nm, mode))
        parent = []
        for nm, mode in seq:
            tid = _raw_tree(r.object_store, pool[nm])
            c = Commit()
            c.tree = tid
            c.parents = parent
            c.author = c.committer = b"V <v@v>"
            c.author_time = c.commit_time = 1
            c.author_timezone = c.commit_timezone = 0
            c.message = b"m"
            r.object_store.add_object(c)
            parent = [c.id]
            try:
                if mode == "patch":
                    # a patch that rewrites every blob path of this tree (targets may by now be symlinks)
                    diff = b""
                    for path, m, payload in pool[nm]:
                        if m == 0o100644:
                            diff += (b"diff --git a/%s b/%s\n--- /dev/null\n+++ b/%s\n@@ -0,0 +1 @@\n+" % (path, path, path)) + MARK
                    if diff:
                        porcelain.apply_patch(r, _io.BytesIO(diff))
                elif mode == "reset_index":
                    r.get_worktree().reset_index(tid)        # build_index_from_tree on top of the existing work tree
                else:
                    porcelain.reset(r, mode, c.id)
            except Exception:
                pass            # refusing is the safe behaviour
        r.close()
        tag = f"[sequence {seq}]"
        eng.prove(_snap(outside) == before_out, f"{tag} nothing outside the work tree was created, changed or deleted: {_snap(outside)}")
        eng.prove(_snap(sibling) == before_sib, f"{tag} a sibling directory whose name extends the work tree's was untouched: {_snap(sibling)}")
        git_after = _snap(os.path.join(wt, ".git"))
        bad = [k for k, v in git_after.items() if not k.startswith("objects") and v[0] == "file" and MARK in v[1]]
        eng.prove(not bad, f"{tag} no tree content was written into .git: {bad}")
        eng.prove(git_after.get("config") == config_before, f"{tag} .git/config is untouched: {git_after.get('config')}")
        new = {k for k in git_after if not k.startswith("objects")} - git_before - {"index", "ORIG_HEAD", "HEAD"}
        new = {k for k in new if not k.startswith("refs/") and not k.startswith("logs/")}
        eng.prove(not new, f"{tag} no foreign file appeared in .git: {sorted(new)}")
        strays = [k for k in git_after if os.path.basename(k) == ".git"]
        eng.prove(not strays, f"{tag} no submodule placeholder was written inside the control directory: {strays}")
    finally:
        _sh2.rmtree(base, ignore_errors=True)


def checks(tier):
    q = ("quick", "thorough")
    pool_names = ["absolute", "d_dir", "d_gitlink", "d_link_abs", "d_link_dotgit", "d_link_parent", "d_link_refs", "d_link_sibling", "dotdot",
                  "dotgit_ntfs", "dotgit_upper", "plain", "x_file_11_bytes", "x_file_19_bytes", "x_link_dotgit_file", "x_link_sibling_file"]
    enc_c = ["dulwich.porcelain.reset/apply_patch", "dulwich.index.build_index_from_tree/update_working_tree/verify_leading_dirs/"
                        "validate_path/build_file_from_blob", "dulwich.patch.apply_patches/_ensure_within_repo/_validate_patch_target"]
    bound_c = ("%s: each step a tree from an adversarial pool of 16 (symlinks to ../outside, to an absolute path, to a "
                      "sibling directory whose name extends the work tree's, to a file in it, to .git, .git/refs/heads and .git/config; a gitlink replacing such a link; directory of the same name; .GIT, "
                      "'.git .', git~1, '..' and absolute entry names) applied by reset --hard, reset --mixed, WorkTree.reset_index (checkout on top of what is there) or as a patch rewriting "
                      "the tree's files; real directories with canaries outside the work tree")
    return _b17(tier) + [
        KCheck("C17c.composition", h_compose,
               parts=[{"first": f, "steps": 2} for f in pool_names] +
                     [{"first": f, "steps": 3, "reduced": True} for f in pool_names if f.startswith(("d_link", "x_link", "plain", "d_dir"))],
               encoded=enc_c, bounds=bound_c % "every sequence of 2 steps, and every sequence of 3 steps that starts with a link-creating, "
               "plain or directory tree, continues with any tree by reset --hard or --mixed and ends with any tree by reset --hard, "
               "reset_index or patch",
               outside="the remaining 3-step sequences (thorough); longer sequences; clone/stash entry points; real NTFS/HFS+ file systems",
               time_budget=2400, tiers=("quick",)),
        KCheck("C17c.composition_full", h_compose, parts=[{"first": f, "steps": 3} for f in pool_names],
               encoded=enc_c, bounds=bound_c % "every sequence of 3 steps with every mode at steps 2 and 3",
               outside="sequences longer than 3; clone/stash entry points; real NTFS/HFS+ file systems", time_budget=6000, tiers=("thorough",)),
    ]
