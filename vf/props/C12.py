"""C12 — tree building, flattening, diffing and patching are mutually consistent."""
from __future__ import annotations

from vf.common import KCheck
from vf.ksym.core import And, Or, Not
from vf.ksym.sbytes import _out, elems_of

from dulwich.index import commit_tree
from dulwich.object_store import MemoryObjectStore, iter_tree_contents, commit_tree_changes, tree_lookup_path
from dulwich.objects import Blob, Tree
import dulwich.diff_tree as DT

PROPERTY = "C12"
B1 = Blob.from_string(b"one\n")
B2 = Blob.from_string(b"two\n")
GL = b"9" * 40
# entry states: None = absent
STATES = [None, (0o100644, B1.id), (0o100755, B2.id), (0o160000, GL), (0o120000, B2.id), (0o100644, B2.id)]
PATHS_A = [b"a", b"a.b", b"a/b", b"a-", b"a0", b"a/b/c", b"b"]


def _store():
    s = MemoryObjectStore()
    s.add_object(B1)
    s.add_object(B2)
    return s


def _listing(eng, paths, nstates, tag):
    L = {}
    for i, p in enumerate(paths):
        st = STATES[eng.choice(f"{tag}{i}", nstates)]
        if st is not None:
            L[p] = st
    return L


def _conflict(L):
    ks = list(L)
    return any(a != b and b.startswith(a + b"/") for a in ks for b in ks)


def _flat(store, tid, include_trees=False):
    return {e.path: (e.mode, e.sha) for e in iter_tree_contents(store, tid, include_trees=include_trees)}


def h_build_flatten(eng, first=0, paths=None, nstates=4):
    """iter_tree_contents(commit_tree(L)) == L for every listing; entries come out in git's order; a listing with a
    file/directory conflict does not silently produce a tree that loses an entry"""
    store = _store()
    L = {}
    paths = paths or PATHS_A
    st0 = STATES[first]
    if st0 is not None:
        L[paths[0]] = st0
    L.update(_listing(eng, paths[1:], nstates, "p"))
    L = {p: v for p, v in L.items()}
    try:
        tid = commit_tree(store, [(p, sha, mode) for p, (mode, sha) in L.items()])
    except Exception as e:
        eng.prove(_conflict(L), f"commit_tree refuses only conflicting listings ({type(e).__name__})")
        return
    got = list(iter_tree_contents(store, tid))
    flat = {e.path: (e.mode, e.sha) for e in got}
    if _conflict(L):
        eng.prove(len(flat) <= len(L), "conflicting listing: nothing invented")
        return
    eng.prove(flat == L, "flattening a built tree gives back the listing")
    # order: depth-first in git tree order == sorted by path with directories compared as 'name/'
    paths = [e.path for e in got]

    def key(p):
        return p
    eng.prove(len(paths) == len(set(paths)), "each path once")
    # every tree object stores its entries in canonical order and re-serialises identically
    todo = [tid]
    while todo:
        t = store[todo.pop()]
        names = [(e.path + (b"/" if e.mode == 0o040000 else b"")) for e in t.iteritems()]
        eng.prove(names == sorted(names), "tree entries are stored in git's canonical order")
        todo += [e.sha for e in t.iteritems() if e.mode == 0o040000]
    for p, (mode, sha) in L.items():
        eng.prove(tree_lookup_path(store.__getitem__, tid, p) == (mode, sha), "tree_lookup_path agrees with the listing")


P4 = [b"a", b"a/b", b"a.b", b"d/x"]


def _apply(changes, flatA, include_trees):
    out = dict(flatA)
    seen = set()
    for ch in changes:
        for side in (ch.old, ch.new):
            pass
        p_old = ch.old.path if ch.old is not None and ch.old.path is not None else None
        p_new = ch.new.path if ch.new is not None and ch.new.path is not None else None
        if ch.type == DT.CHANGE_DELETE:
            out.pop(p_old, None)
        elif ch.type in (DT.CHANGE_ADD,):
            out[p_new] = (ch.new.mode, ch.new.sha)
        elif ch.type == DT.CHANGE_MODIFY:
            out[p_new] = (ch.new.mode, ch.new.sha)
        elif ch.type == DT.CHANGE_UNCHANGED:
            pass
        else:
            raise AssertionError(ch.type)
    return out


def h_diff_apply(eng, include_trees=False, change_type_same=False, want_unchanged=False, filt=None):
    """tree_changes(A,B) applied to flatten(A) yields flatten(B), each path mentioned at most once (per side); with a
    path filter exactly the changes at or below the filter path are reported"""
    store = _store()
    LA = _listing(eng, P4, 3, "a")
    LB = _listing(eng, P4, 3, "b")
    eng.assume(not _conflict(LA) and not _conflict(LB))
    ta = commit_tree(store, [(p, sha, mode) for p, (mode, sha) in LA.items()])
    tb = commit_tree(store, [(p, sha, mode) for p, (mode, sha) in LB.items()])
    paths = None if filt is None else [filt]
    changes = list(DT.tree_changes(store, ta, tb, want_unchanged=want_unchanged, include_trees=include_trees,
                                   change_type_same=change_type_same, paths=paths))
    fa = _flat(store, ta, include_trees)
    fb = _flat(store, tb, include_trees)
    mentioned_old = [c.old.path for c in changes if c.old is not None and c.old.path is not None and c.type != DT.CHANGE_UNCHANGED]
    mentioned_new = [c.new.path for c in changes if c.new is not None and c.new.path is not None and c.type != DT.CHANGE_UNCHANGED]
    eng.prove(len(mentioned_old) == len(set(mentioned_old)) and len(mentioned_new) == len(set(mentioned_new)),
              "each path is mentioned at most once")
    if filt is None:
        got = _apply(changes, fa, include_trees)
        if include_trees:
            got.pop(b"", None)
            fb2 = dict(fb)
            fb2.pop(b"", None)
            fa.pop(b"", None)
            eng.prove({k: v for k, v in got.items()} == fb2, "changes applied to flatten(A) give flatten(B) (trees included)")
        else:
            eng.prove(got == fb, f"changes applied to flatten(A) give flatten(B) (A={LA} B={LB} changes={[(c.type, c.old and c.old.path, c.new and c.new.path) for c in changes]})")
    else:
        def under(p):
            return p == filt or p.startswith(filt + b"/")
        want_paths = {p for p in set(fa) | set(fb) if under(p) and fa.get(p) != fb.get(p)}
        got_paths = set(mentioned_old) | set(mentioned_new)
        if not include_trees:
            eng.prove(got_paths == want_paths, f"path filter {filt!r}: exactly the differing paths at or below it are "
                      f"reported (got {sorted(got_paths)}, want {sorted(want_paths)}; A={LA} B={LB})")


PC = [b"x", b"a/b", b"a/c", b"d/a", b"d/e/f"]


def h_patch(eng):
    """commit_tree_changes(A, changes) == commit_tree(changed listing)"""
    store = _store()
    LA = {}
    for i, p in enumerate(PC):
        if eng.bool(f"in_a{i}"):
            LA[p] = STATES[1]
    ta = commit_tree(store, [(p, sha, mode) for p, (mode, sha) in LA.items()])
    changes = []
    LB = dict(LA)
    for i, p in enumerate(PC):
        k = eng.choice(f"chg{i}", 3)
        if k == 1:
            changes.append((p, 0o100644, B2.id))
            LB[p] = (0o100644, B2.id)
        elif k == 2:
            if p not in LA:
                continue
            changes.append((p, None, None))
            LB.pop(p, None)
    new_tree = commit_tree_changes(store, store[ta], changes)
    want = commit_tree(store, [(p, sha, mode) for p, (mode, sha) in LB.items()])
    got_id = new_tree.id if hasattr(new_tree, "id") else new_tree
    eng.prove(_flat(store, got_id) == LB, f"patched tree flattens to the changed listing (A={sorted(LA)} changes={changes})")
    eng.prove(got_id == want, "patched tree id equals the id of the tree rebuilt from the changed listing")


def h_merge_entries(eng, n1=2, n2=2):
    """_merge_entries on two trees with fully symbolic entry names: the result is the sorted merge in name order,
    each name once, matching entries paired"""
    names1 = [eng.bytes(f"x{i}", 1 + (i % 2)) for i in range(n1)]
    names2 = [eng.bytes(f"y{i}", 1 + (i % 2)) for i in range(n2)]
    for nm in names1 + names2:
        for x in elems_of(nm):
            eng.assume(And(x != 0, x != 47))
    for i in range(n1):
        for j in range(i):
            eng.assume(Not(names1[i] == names1[j]) if len(names1[i]) == len(names1[j]) else True)
    for i in range(n2):
        for j in range(i):
            eng.assume(Not(names2[i] == names2[j]) if len(names2[i]) == len(names2[j]) else True)

    class FakeTree:
        def __init__(self, names):
            self.names = names

        def __bool__(self):
            return bool(self.names)

        def iteritems(self, name_order=False):
            from dulwich.objects import TreeEntry
            return [TreeEntry(n, 0o100644, B1.id) for n in sorted(self.names, key=lambda b: b)]
    res = DT._merge_entries(b"", FakeTree(names1), FakeTree(names2))
    outnames = [(a or b).path for a, b in res]
    for i in range(len(outnames) - 1):
        eng.prove(outnames[i] < outnames[i + 1], "merged entries are strictly increasing by name (each name once)")
    eng.prove(len(res) >= max(n1, n2) and len(res) <= n1 + n2, "nothing lost, nothing invented")
    for a, b in res:
        if a is not None and b is not None:
            eng.prove(a.path == b.path, "paired entries have the same name")


def checks(tier):
    q = ("quick", "thorough")
    return [
        KCheck("C12a.build_flatten", h_build_flatten, parts=[{"first": k} for k in range(len(STATES))],
               encoded=["dulwich.index.commit_tree", "dulwich.object_store.iter_tree_contents", "dulwich.object_store.tree_lookup_path",
                        "dulwich.objects.Tree.add/iteritems/_serialize", "dulwich.objects.sorted_tree_items"],
               bounds="every listing over the paths {a, a.b, a/b, a-, a0, a/b/c, b}, each absent or a file, an executable or a gitlink (the first path "
                      "additionally a symlink or a second blob)",
               outside="deeper nesting, longer names", tiers=q),
        KCheck("C12b.diff_apply", h_diff_apply,
               parts=[{"include_trees": it, "change_type_same": cs, "want_unchanged": wu} for it in (False, True)
                      for cs in (False, True) for wu in (False, True)] +
                     [{"filt": f} for f in (b"a", b"a/b", b"d")],
               encoded=["dulwich.diff_tree.tree_changes", "dulwich.diff_tree.walk_trees", "dulwich.diff_tree._merge_entries",
                        "dulwich.diff_tree._skip_tree/_is_tree"],
               bounds="every pair of conflict-free listings over {a, a/b, a.b, d/x} each absent, a file or an executable with another blob; all 8 combinations of include_trees / change_type_same / want_unchanged; "
                      "path filters a, a/b, d",
               outside="rename detection; more paths", time_budget=1800, tiers=q),
        KCheck("C12c.patch", h_patch,
               encoded=["dulwich.object_store.commit_tree_changes", "dulwich.index.commit_tree"],
               bounds="every tree over {x, a/b, a/c, d/a, d/e/f} (membership symbolic) and every change list that sets or deletes "
                      "any subset of those paths (several new sibling directories in one call included)",
               outside="replacing a directory by a file in one change list", tiers=q),
        KCheck("C12d.merge_entries", h_merge_entries, parts=[{"n1": a, "n2": b} for a in (1, 2) for b in (1, 2)],
               encoded=["dulwich.diff_tree._merge_entries", "dulwich.diff_tree._tree_entries"],
               bounds="two trees of 1-2 entries each with fully symbolic names of 1-2 bytes (no NUL, no '/')", outside="longer names",
               max_decisions=600, tiers=q),
    ]


# ---------------------------------------------------------------------------------------------
# (e) twin directories (identical subtrees referenced twice) and type changes
_b12e = checks
TWIN = [b"d/x", b"e/x", b"d/y", b"e/y", b"f/g/x", b"f/x", b"z"]


def h_type_change(eng, include_trees=False, change_type_same=False):
    """one path whose kind changes between two trees (file, executable, symlink, gitlink, directory, absent): with
    change_type_same=False a change of the object type bits is reported as a delete plus an add, otherwise as one
    modify; equal type bits with different mode or id: one modify; identical: nothing"""
    import stat as _st
    store = _store()
    kinds = STATES + ["dir"]

    def side(tag):
        k = kinds[eng.choice(tag, len(kinds))]
        if k is None:
            return {}, None
        if k == "dir":
            return {b"p/q": STATES[1]}, 0o040000
        return {b"p": k}, k[0]
    LA, ma = side("old_kind")
    LB, mb = side("new_kind")
    LA[b"zz"] = STATES[1]
    LB[b"zz"] = STATES[1]
    ta = commit_tree(store, [(p, sha, mode) for p, (mode, sha) in LA.items()])
    tb = commit_tree(store, [(p, sha, mode) for p, (mode, sha) in LB.items()])
    changes = [c for c in DT.tree_changes(store, ta, tb, include_trees=include_trees, change_type_same=change_type_same)]
    on_p = [c for c in changes if b"p" in ((c.old.path if c.old else None), (c.new.path if c.new else None))]
    types = sorted(c.type for c in on_p)
    tag = f"[old mode {ma and oct(ma)} new mode {mb and oct(mb)} include_trees={include_trees} change_type_same={change_type_same}: {types}]"
    vis_a = ma is not None and (ma != 0o040000 or include_trees)
    vis_b = mb is not None and (mb != 0o040000 or include_trees)
    if not vis_a and not vis_b:
        eng.prove(types == [], f"{tag} nothing to report for the path itself")
    elif vis_a and not vis_b:
        eng.prove(types == [DT.CHANGE_DELETE], f"{tag} a delete")
    elif vis_b and not vis_a:
        eng.prove(types == [DT.CHANGE_ADD], f"{tag} an add")
    elif LA.get(b"p") == LB.get(b"p") and ma != 0o040000 and mb != 0o040000:
        eng.prove(types == [], f"{tag} identical entries are not reported")
    elif _st.S_IFMT(ma) != _st.S_IFMT(mb) and not change_type_same:
        eng.prove(types == sorted([DT.CHANGE_ADD, DT.CHANGE_DELETE]), f"{tag} a change of object type is a delete plus an add")
    elif ma == 0o040000 and mb == 0o040000:
        pass                                               # same subtree on both sides or not: covered by C12b
    else:
        eng.prove(types == [DT.CHANGE_MODIFY], f"{tag} one modify")


def checks(tier):
    q = ("quick", "thorough")
    return _b12e(tier) + [
        KCheck("C12a.twin_dirs", h_build_flatten, parts=[{"first": k, "paths": TWIN, "nstates": 3} for k in range(3)],
               encoded=["dulwich.index.commit_tree", "dulwich.object_store.iter_tree_contents", "dulwich.object_store.tree_lookup_path"],
               bounds="every listing over {d/x, e/x, d/y, e/y, f/g/x, f/x, z} with each path absent or one of two blobs: directories with "
                      "byte-identical contents (the same tree object referenced twice, also at different depths) included",
               outside="more than two identical directories", tiers=q),
        KCheck("C12e.type_change", h_type_change, parts=[{"include_trees": it, "change_type_same": cs} for it in (False, True) for cs in (False, True)],
               encoded=["dulwich.diff_tree.tree_changes", "dulwich.diff_tree._merge_entries"],
               bounds="one path that is absent, a file, an executable, a gitlink, a symlink, another file or a directory on either "
                      "side (all 49 pairs), all 4 combinations of include_trees / change_type_same",
               outside="rename detection", tiers=q),
    ]


# ---------------------------------------------------------------------------------------------
# (f) with rename / copy / rewrite detection the diff is still a consistent edit script
_b12f = checks


def _variants():
    """blobs with graded similarity to a 20-line base: identical, ~90 %, ~75 %, unrelated"""
    from dulwich.objects import Blob
    lines = [b"line %02d of the common base text\n" % i for i in range(20)]
    out = [Blob.from_string(b"".join(lines))]
    for keep in (18, 15):
        out.append(Blob.from_string(b"".join(lines[:keep]) + b"".join(b"changed %02d in variant %d\n" % (i, keep) for i in range(keep, 20))))
    out.append(Blob.from_string(b"".join(b"nothing in common %02d\n" % i for i in range(20))))
    return out


def h_rename_detect(eng, rewrite=None, harder=False):
    """every pair of trees (old over {a, b}, new over {a, b, c}) whose contents come from 4 graded variants of one text (or are absent),
    diffed with a RenameDetector (rename threshold 60, rewrite threshold None / 50 / 80 / 95, find_copies_harder on/off):
    applying the reported changes to the first listing (delete removes, add / modify / rename-target / copy-target set)
    yields the second, every old path is consumed at most once by a non-copy change, every new path is produced once"""
    store = _store()
    vs = _variants()
    for v in vs:
        store.add_object(v)
    paths = [b"a", b"b", b"c"]

    def listing(tag):
        L = {}
        for i, p in enumerate(paths[:2] if tag == "old" else paths):
            k = eng.choice(f"{tag}_{p.decode()}", len(vs) + 1)
            if k < len(vs):
                L[p] = (0o100644, vs[k].id)
        return L
    LA, LB = listing("old"), listing("new")
    ta = commit_tree(store, [(p, sha, mode) for p, (mode, sha) in LA.items()])
    tb = commit_tree(store, [(p, sha, mode) for p, (mode, sha) in LB.items()])
    det = DT.RenameDetector(store, rename_threshold=60, rewrite_threshold=rewrite, find_copies_harder=harder)
    changes = det.changes_with_renames(ta, tb)
    tag = f"[old {sorted((p, [v.id for v in vs].index(s)) for p, (m, s) in LA.items())} new {sorted((p, [v.id for v in vs].index(s)) for p, (m, s) in LB.items())} rewrite={rewrite} harder={harder}: {[(c.type, c.old and c.old.path, c.new and c.new.path) for c in changes]}]"
    out = dict(LA)
    consumed, produced = [], []
    for c in changes:
        if c.type == DT.CHANGE_UNCHANGED:
            continue
        if c.type in (DT.CHANGE_DELETE, DT.CHANGE_RENAME) and c.old is not None:
            consumed.append(c.old.path)
        if c.type == DT.CHANGE_MODIFY and c.old is not None:
            consumed.append(c.old.path)
        if c.new is not None and c.new.path is not None and c.type != DT.CHANGE_DELETE:
            produced.append(c.new.path)
    for c in changes:
        if c.type in (DT.CHANGE_DELETE, DT.CHANGE_RENAME):
            out.pop(c.old.path, None)
    for c in changes:
        if c.type in (DT.CHANGE_ADD, DT.CHANGE_MODIFY, DT.CHANGE_RENAME, DT.CHANGE_COPY):
            out[c.new.path] = (c.new.mode, c.new.sha)
    eng.prove(out == LB, f"{tag} the changes applied to the old listing give the new one")
    eng.prove(len(consumed) == len(set(consumed)), f"{tag} no old path is consumed twice (delete / modify / rename source)")
    eng.prove(len(produced) == len(set(produced)), f"{tag} no new path is produced twice")


def checks(tier):
    q = ("quick", "thorough")
    return _b12f(tier) + [
        KCheck("C12f.rename_detect", h_rename_detect, parts=[{"rewrite": r, "harder": h} for r in (None, 50, 80, 95) for h in (False, True)],
               encoded=["dulwich.diff_tree.RenameDetector.changes_with_renames/_find_exact_renames/_find_content_rename_candidates/"
                        "_choose_content_renames/_join_modifies/_prune_unchanged", "dulwich.diff_tree._similarity_score"],
               bounds="every pair of trees (old over {a, b}, new over {a, b, c}) with each path absent or one of 4 graded variants of a 20-line text (identical, "
                      "~90/75 % similar, unrelated); rename threshold 60; rewrite threshold None, 50, 80, 95; find_copies_harder "
                      "on/off", outside="more paths; directories; agreement with git's own rename heuristics", tiers=q),
    ]
