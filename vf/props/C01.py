"""C01 — object names are content hashes; serialisation is lossless and git-identical."""
from __future__ import annotations

from vf.common import KCheck
from vf.ksym.core import And, Or, Not, Ite
from vf.ksym.sbytes import SymBytes, _out, elems_of

import dulwich.objects as O

PROPERTY = "C01"


# ------------------------------------------------------------------ (a) timezones
def h_tz_format_parse(eng):
    """parse_timezone(format_timezone(off, neg)) == (off, neg) for every whole-minute offset"""
    m = eng.int("minutes", -6000, 6000)
    neg = bool(eng.bool("neg_utc"))
    off = m * 60
    if neg:
        eng.assume(off == 0)          # git only ever emits the flag as '-0000'; '--HMM' is a broken-input spelling
    txt = O.format_timezone(off, neg)
    eng.observe("text", txt)
    back, bneg = O.parse_timezone(txt)
    eng.prove(And(back == off, bool(bneg) == neg), "timezone survives format -> parse")


def h_tz_parse_format(eng):
    """format_timezone(parse_timezone(t)) == t for every spelling git emits: [+-]HHMM with MM < 60"""
    sign = eng.byte("sign")
    eng.assume(Or(sign == 43, sign == 45))
    d = [eng.int(f"d{i}", 0, 9) for i in range(4)]
    eng.assume(d[2] <= 5)
    txt = _out([sign] + [x + 48 for x in d])
    off, neg = O.parse_timezone(txt)
    out = O.format_timezone(off, neg)
    eng.observe("off", off)
    eng.prove(out == txt, "timezone text survives parse -> format")


def h_time_entry(eng, plen=3, tmax=2 ** 62, tneg=None, zneg=None):
    """parse_time_entry(format_time_entry(person, time, tz)) returns the same triple
    (tneg / zneg: partition of the time and zone ranges by sign; None = the whole range)"""
    who = eng.bytes("person", plen)
    person = who + b" <" + eng.bytes("mail", 1) + b">"
    t = eng.int("time", *((-tmax, tmax) if tneg is None else ((-tmax, -1) if tneg else (0, tmax))))
    m = eng.int("tzmin", *((-1439, 1439) if zneg is None else ((-1439, -1) if zneg else (0, 1439))))
    line = O.format_time_entry(person, t, (m * 60, False))
    p2, t2, (tz2, n2) = O.parse_time_entry(line)
    eng.prove(p2 == person, "identity survives")
    eng.prove(And(t2 == t, tz2 == m * 60, Not(n2)), "time and zone survive")


# ------------------------------------------------------------------ (c) trees
class _Entries:
    def __init__(self, items):
        self._items = items

    def items(self):
        return list(self._items)


def ref_base_name_compare(n1, m1, n2, m2):
    """git tree order (read-cache.c base_name_compare) as a SymBool 'entry1 sorts before entry2' (strict)"""
    e1 = elems_of(n1) + [Ite((m1 & 0o170000) == 0o040000, 47, 0)]
    e2 = elems_of(n2) + [Ite((m2 & 0o170000) == 0o040000, 47, 0)]
    # compare as NUL-terminated byte strings with the implicit '/' after directory names
    return _out(e1) < _out(e2)


def h_tree_order(eng, n1=2, n2=2):
    """sorted_tree_items orders every pair of entries as git does (directories sort as 'name/')"""
    a = eng.bytes("a", n1)
    b = eng.bytes("b", n2)
    for x in elems_of(a) + elems_of(b):
        eng.assume(And(x != 0, x != 47))
    eng.assume(Not(a == b) if n1 == n2 else True)
    ma = eng.int("mode_a", 0, 0o177777)
    mb = eng.int("mode_b", 0, 0o177777)
    sha = b"1" * 40
    got = list(O.sorted_tree_items(_Entries([(a, (ma, sha)), (b, (mb, sha))]), False))
    first_is_a = got[0].path is a or (eng.mode == "concrete" and got[0].path == a and got[0].mode == ma)
    want_a_first = ref_base_name_compare(a, ma, b, mb)
    want_b_first = ref_base_name_compare(b, mb, a, ma)
    if first_is_a:
        eng.prove(Not(want_b_first), "order agrees with git's base_name_compare")
    else:
        eng.prove(Not(want_a_first), "order agrees with git's base_name_compare")


def h_tree_roundtrip(eng, n=2, k=2):
    """parse_tree(serialize_tree(items)) == items for symbolic names and every mode"""
    items = []
    for i in range(k):
        nm = eng.bytes(f"name{i}", n)
        for x in elems_of(nm):
            eng.assume(x != 0)
        md = eng.int(f"mode{i}", 0, 0o7777777)
        items.append((nm, md, (b"%02x" % (i + 17)) * 20))
    chunks = list(O.serialize_tree(items))
    text = SymBytes([]).join(chunks) if eng.mode != "concrete" else b"".join(chunks)
    back = list(O.parse_tree(text, 20))
    eng.prove(len(back) == k, "same number of entries")
    for (n1, m1, s1), (n2, m2, s2) in zip(items, back):
        eng.prove(And(n1 == n2, m1 == m2, s1 == s2), "entry survives")
    # git writes modes without leading zeros except that nothing is shorter than... ("%o"); dulwich pads to 4?
    for (nm, md, _), ch in zip(items, chunks):
        e = elems_of(ch)
        sp = len(e) - 21 - len(elems_of(nm)) - 1
        eng.prove(Or(sp == 4, e[0] != 48), "mode has no superfluous leading zero beyond dulwich's 4-digit minimum")


# ------------------------------------------------------------------ (d) messages
def h_message(eng, vlen=3, blen=2):
    """_parse_message(_format_message(headers, body)) returns the headers and the body"""
    val = eng.bytes("value", vlen)
    body = eng.bytes("body", blen)
    headers = [(b"tree", b"t" * 4), (b"mergetag", val), (b"encoding", b"x")]
    chunks = list(O._format_message(headers, body))
    out = list(O._parse_message(chunks))
    eng.observe("n", len(out))
    eng.prove(len(out) == 4, "three headers and a body")
    if len(out) == 4:
        eng.prove(And(out[0][0] == b"tree", out[0][1] == b"tttt"), "first header")
        eng.prove(And(out[1][0] == b"mergetag", out[1][1] == val), "multi-line header value survives folding")
        eng.prove(And(out[2][0] == b"encoding", out[2][1] == b"x"), "following header intact")
        eng.prove(out[3][0] is None and (out[3][1] == body), "body survives")


# ------------------------------------------------------------------ (e) setter histories
_VALS = {
    "tree": [b"a" * 40, b"b" * 40],
    "parents": [[], [b"c" * 40], [b"c" * 40, b"d" * 40]],
    "author": [b"A <a@b>", b"B\xff <b@c>"],
    "committer": [b"C <c@d>", b"D <d@e>"],
    "author_time": [0, -5, 2 ** 40],
    "commit_time": [1, 2 ** 33],
    "author_timezone": [0, -3600, 19800],
    "commit_timezone": [0, 7200],
    "encoding": [None, b"latin1"],
    "message": [b"", b"m\n", b"multi\n\nline"],
    "gpgsig": [None, b"-----BEGIN\n x\n-----END"],
}
_TVALS = {
    "name": [b"v1", b"v2"],
    "tagger": [b"U <u@u>", b"T <t@t>"],
    "tag_time": [7, 5],
    "tag_timezone": [0, -1800],
    "message": [b"", b"tagmsg\n"],
    "object": [(O.Commit, b"e" * 40), (O.Blob, b"f" * 40), (O.Tree, b"9" * 40)],
    "signature": [None, b"-----BEGIN PGP SIGNATURE-----\nzz\n-----END PGP SIGNATURE-----\n"],
}


def _fresh(cls, state):
    o = cls()
    for k, v in state.items():
        setattr(o, k, v)
    return o


def _hist(eng, cls, vals, init, steps):
    """apply a symbolic history of setter calls / id reads to a live object and compare with a
    freshly built object after every step"""
    import hashlib
    state = dict(init)
    obj = _fresh(cls, state)
    names = sorted(vals)
    for s in range(steps):
        op = eng.choice(f"op{s}", len(names) + 1)
        if op == len(names):
            _ = obj.id                       # forces serialisation and caches the name
        else:
            nm = names[op]
            v = vals[nm][eng.choice(f"val{s}", len(vals[nm]))]
            if nm in ("tagger", "tag_time", "tag_timezone") and cls is O.Tag:
                # git writes the tagger line only with all three parts; keep the triple consistent
                pass
            setattr(obj, nm, v)
            state[nm] = v
        ref = _fresh(cls, state)
        raw = ref.as_raw_string()
        eng.prove(obj.as_raw_string() == raw, "bytes equal a fresh serialisation of the same field values")
        want = hashlib.sha1(ref.type_name + b" " + str(len(raw)).encode() + b"\0" + raw).hexdigest().encode()
        eng.prove(obj.id == want, "name is the SHA-1 of type, length and content after every edit")
        want256 = hashlib.sha256(ref.type_name + b" " + str(len(raw)).encode() + b"\0" + raw).hexdigest().encode()
        from dulwich.object_format import SHA256
        eng.prove(obj.get_id(SHA256) == want256, "SHA-256 name follows the content as well")


def h_commit_history(eng, steps=2):
    init = {k: v[0] for k, v in _VALS.items()}
    _hist(eng, O.Commit, _VALS, init, steps)


def h_tag_history(eng, steps=2):
    init = {"name": b"v0", "tagger": b"T <t@t>", "tag_time": 3, "tag_timezone": 0, "message": b"m",
            "object": (O.Commit, b"e" * 40), "signature": None}
    _hist(eng, O.Tag, _TVALS, init, steps)


def h_tree_history(eng, steps=3, op0=None):
    import hashlib
    t = O.Tree()
    model = {}
    names = [b"a", b"a.b", b"a-"]
    modes = [0o100644, 0o040000, 0o160000]
    shas = [b"1" * 40, b"2" * 40]
    for s in range(steps):
        op = op0 if (s == 0 and op0 is not None) else eng.choice(f"op{s}", 4)
        nm = names[eng.choice(f"n{s}", len(names))]
        if op == 0:
            md = modes[eng.choice(f"m{s}", len(modes))]
            sh = shas[eng.choice(f"s{s}", 2)]
            t[nm] = (md, sh)
            model[nm] = (md, sh)
        elif op == 1:
            md = modes[eng.choice(f"m{s}", len(modes))]
            t.add(nm, md, shas[0])
            model[nm] = (md, shas[0])
        elif op == 2:
            if nm in model:
                del t[nm]
                del model[nm]
        else:
            _ = t.id
        ref = O.Tree()
        for k, (md, sh) in model.items():
            ref.add(k, md, sh)
        raw = ref.as_raw_string()
        eng.prove(t.as_raw_string() == raw, "tree bytes equal a fresh tree with the same entries")
        want = hashlib.sha1(b"tree " + str(len(raw)).encode() + b"\0" + raw).hexdigest().encode()
        eng.prove(t.id == want, "tree name follows its content after every edit")


def h_blob_history(eng, steps=3):
    import hashlib
    b = O.Blob()
    cur = b""
    datas = [b"", b"x", b"hello\n"]
    for s in range(steps):
        op = eng.choice(f"op{s}", 3)
        d = datas[eng.choice(f"d{s}", 3)]
        if op == 0:
            b.data = d
            cur = d
        elif op == 1:
            if eng.known("C01-blob-chunked-stale"):
                eng.assume(False)
            b.chunked = [d[:1], d[1:]]
            cur = d
        else:
            _ = b.id
        want = hashlib.sha1(b"blob " + str(len(cur)).encode() + b"\0" + cur).hexdigest().encode()
        eng.prove(b.id == want, "blob name follows its content after every edit")
        eng.prove(b.as_raw_string() == cur, "blob content")


# ------------------------------------------------------------------ (f) parse -> serialise is the identity
def h_commit_reserialize(eng, n=2):
    """Commit.from_string(raw).as_raw_string() == raw for a commit with symbolic bytes in every slot, and
    after changing one field every other line is byte-identical"""
    a = eng.bytes("author", n)
    msg = eng.bytes("msg", n)
    extra = eng.bytes("extra", n)
    for x in elems_of(a):
        eng.assume(And(x != 10, x != 0, x != 62, x != 60))
    for x in elems_of(extra):
        eng.assume(x != 0)
    t = [0, -5, 2 ** 40][eng.choice("time", 3)]
    raw = (b"tree " + b"a" * 40 + b"\nparent " + b"b" * 40 + b"\nauthor " + a + b" <x@y> " +
           str(t).encode("ascii") +
           b" +0100\ncommitter C <c@d> 12 -0000\nencoding latin1\nxheader " + extra.replace(b"\n", b"\n ") +
           b"\n\n" + msg)
    c = O.Commit.from_string(raw)
    eng.prove(c.as_raw_string() == raw, "unchanged commit re-serialises byte-identically")
    eng.prove(c.author == a + b" <x@y>", "author parsed")
    eng.prove(c.author_time == t, "time parsed")
    c.committer = b"Z <z@z>"
    want = raw.replace(b"committer C <c@d> 12 -0000", b"committer Z <z@z> 12 -0000")
    eng.prove(c.as_raw_string() == want, "changing one field leaves every other byte identical")


def checks(tier):
    q = ("quick", "thorough")
    t = ("thorough",)
    o = "dulwich.objects."
    return [
        KCheck("C01a.tz_format_parse", h_tz_format_parse, encoded=[o + "format_timezone", o + "parse_timezone"],
               bounds="every whole-minute offset with |offset| <= 100 h; the -0000 flag with offset 0",
               outside="offsets beyond +-100 h; int(x/100) on floats is modelled exactly for |x| < 2^53 (obligation discharged)",
               pins=[(0, {"minutes": 0, "neg_utc": True}), (0, {"minutes": -90, "neg_utc": False}),
                     (0, {"minutes": 330, "neg_utc": False})], width=40, tiers=q),
        KCheck("C01a.tz_parse_format", h_tz_parse_format, encoded=[o + "parse_timezone", o + "format_timezone"],
               bounds="every [+-]HHMM with MM < 60 (20 000 spellings incl. -0000)", outside="'--HMM' and unsigned spellings",
               pins=[(0, {"sign": 45, "d0": 0, "d1": 0, "d2": 0, "d3": 0}), (0, {"sign": 43, "d0": 1, "d1": 4, "d2": 0, "d3": 0})],
               width=40, tiers=q),
        KCheck("C01b.time_entry", h_time_entry,
               parts=[{"plen": n, "tmax": 10 ** 5, "tneg": tn, "zneg": zn} for n in (0, 1) for tn in (False, True) for zn in (False, True)],
               encoded=[o + "format_time_entry", o + "parse_time_entry", o + "parse_timezone", o + "format_timezone"],
               bounds="identity of 0 or 1 symbolic bytes + 1 symbolic mail byte (incl. '<', '>', blanks), every time in "
                      "[-10^5, 10^5] (negative and multi-digit), every whole-minute zone within +-24 h",
               outside="longer identities; larger times (thorough: +-2^62)", max_decisions=900, width=64, tiers=q),
        KCheck("C01b.time_entry_wide", h_time_entry, parts=[{"plen": 0, "tmax": 2 ** 62}],
               encoded=[o + "format_time_entry", o + "parse_time_entry"],
               bounds="every time in [-2^62, 2^62], one symbolic mail byte, every whole-minute zone within +-24 h",
               outside="-", max_decisions=900, width=80, time_budget=6000, tiers=t),
        KCheck("C01c.tree_order", h_tree_order, parts=[{"n1": a, "n2": b} for a in (1, 2, 3) for b in (1, 2, 3)],
               encoded=[o + "sorted_tree_items", o + "key_entry"],
               bounds="every pair of entries with names of 1..3 symbolic bytes (no NUL, no '/') and every 16-bit mode",
               outside="longer names; more than two entries at once (sorting is pairwise-determined)",
               assumptions=["reference = git read-cache.c base_name_compare"], tiers=q),
        KCheck("C01c.tree_roundtrip", h_tree_roundtrip, parts=[{"n": n, "k": k} for n in (1, 2) for k in (1, 2)],
               encoded=[o + "serialize_tree", o + "parse_tree", o + "sha_to_hex", o + "hex_to_sha"],
               bounds="1..2 entries, names of 1..2 symbolic NUL-free bytes, every mode below 2^21", outside="longer names",
               max_decisions=900, tiers=q),
        KCheck("C01d.message", h_message, parts=[{"vlen": v, "blen": b} for v in (0, 1, 2, 3) for b in (0, 2)],
               encoded=[o + "_format_message", o + "_parse_message", o + "git_line"],
               bounds="a multi-line header value of 0..3 symbolic bytes (incl. LF, CR, blanks) between two fixed headers, body of 0/2 symbolic bytes",
               outside="longer values", max_decisions=900, tiers=q),
        KCheck("C01e.commit_history", h_commit_history, parts=[{"steps": 2}],
               encoded=[o + "Commit (setters, _serialize)", o + "ShaFile.sha/id/get_id/as_raw_string", o + "serializable_property"],
               bounds="every history of 2 steps, each a setter of any of 11 commit fields with 2-3 values or an id read",
               outside="longer histories (3 thorough)", tiers=q),
        KCheck("C01e.commit_history_3", h_commit_history, parts=[{"steps": 3}],
               encoded=[o + "Commit"], bounds="every history of 3 steps", outside="longer", time_budget=6000, tiers=t),
        KCheck("C01e.tag_history", h_tag_history, parts=[{"steps": 3}],
               encoded=[o + "Tag (setters incl. object, _serialize)", o + "ShaFile.sha/id"],
               bounds="every history of 3 steps over 7 tag fields (2-3 values each) and id reads", outside="longer histories",
               tiers=q),
        KCheck("C01e.tree_history", h_tree_history, parts=[{"steps": 3, "op0": k} for k in range(4)],
               encoded=[o + "Tree.__setitem__/add/__delitem__/_serialize", o + "sorted_tree_items"],
               bounds="every history of 3 steps of set/add/delete/id-read over names {a, a.b, a-} x {file, directory, gitlink} x 2 ids",
               outside="longer histories", tiers=q),
        KCheck("C01e.blob_history", h_blob_history, parts=[{"steps": 3}],
               encoded=[o + "Blob.data/chunked setters", o + "ShaFile.sha/id"],
               bounds="every history of 3 steps of data=/chunked=/id-read over 3 contents", outside="longer histories",
               tiers=q),
        KCheck("C01f.commit_reserialize", h_commit_reserialize, parts=[{"n": n} for n in (0, 1, 2)],
               encoded=[o + "Commit.from_string/_deserialize/_serialize", o + "_parse_commit", o + "_parse_message", o + "_format_message"],
               bounds="commit with parent, encoding and a folded multi-line extra header; author name, header value and message of 0..2 "
                      "symbolic bytes each; time in {0, -5, 2^40} (symbolic times: C01b)",
               outside="longer fields; more headers", max_decisions=1200, width=64, tiers=q),
    ]


# ---------------------------------------------------------------------------------------------
# (g) at the object-store entry point: whatever callers do to objects they fetched, a name keeps denoting its bytes
_b01g = checks


def h_store_history(eng, kind="memory", steps=3):
    """histories of {fetch by name and edit a field, fetch by name, add the edited object, commit_tree_changes} over a
    store holding a blob, a tree, a commit and a tag: after every step store[X].id == X and get_raw(X) hashes to X for
    every name X ever stored"""
    import hashlib
    import shutil
    from dulwich.object_store import MemoryObjectStore, DiskObjectStore, commit_tree_changes
    from vf.interpose import scratch
    d = None
    if kind == "memory":
        st = MemoryObjectStore()
    else:
        d = scratch("c01g")
        st = DiskObjectStore.init(d)
        if kind == "packed":
            pass
    try:
        b = O.Blob.from_string(b"one\n")
        t = O.Tree()
        t.add(b"f", 0o100644, b.id)
        sub = O.Tree()
        sub.add(b"g", 0o100644, b.id)
        t.add(b"d", 0o040000, sub.id)
        c = O.Commit()
        c.tree = t.id
        c.author = c.committer = b"A <a@b>"
        c.author_time = c.commit_time = 5
        c.author_timezone = c.commit_timezone = 0
        c.message = b"m"
        tg = O.Tag()
        tg.name = b"v"
        tg.tagger = b"T <t@t>"
        tg.tag_time = 1
        tg.tag_timezone = 0
        tg.message = b"tm"
        tg.object = (O.Commit, c.id)
        objs = [b, sub, t, c, tg]
        if kind == "packed":
            st.add_objects([(o, None) for o in objs])
        else:
            for o in objs:
                st.add_object(o)
        names = {o.id: o.as_raw_string() for o in objs}
        ids = [o.id for o in objs]
        for s in range(steps):
            op = eng.choice(f"op{s}", 4)
            which = eng.choice(f"obj{s}", len(ids))
            if op in (0, 1):
                o = st[ids[which]]
                if isinstance(o, O.Blob):
                    o.data = b"edited\n"
                elif isinstance(o, O.Tree):
                    o.add(b"zz", 0o100644, b.id)
                elif isinstance(o, O.Commit):
                    o.message = b"edited"
                else:
                    o.name = b"edited"
                if op == 1:
                    st.add_object(o)
                    names[o.id] = o.as_raw_string()
            elif op == 2:
                new_id = commit_tree_changes(st, st[t.id], [(b"d/g", None, None), (b"n", 0o100644, b.id)])
                names[new_id] = st[new_id].as_raw_string()
            else:
                _ = st[ids[which]].id
            for x, raw in names.items():
                got = st[x]
                eng.prove(got.id == x, f"after step {s} (op {op} on object {which}): store[X].id == X for {got.type_name.decode()}")
                tn, data = st.get_raw(x)
                want = hashlib.sha1(got.type_name + b" " + str(len(data)).encode() + b"\0" + data).hexdigest().encode()
                eng.prove(want == x and data == raw, f"after step {s} (op {op} on object {which}): get_raw(X) still hashes to X")
    finally:
        if hasattr(st, "close"):
            st.close()
        if d:
            shutil.rmtree(d, ignore_errors=True)


def checks(tier):
    q = ("quick", "thorough")
    enc_g = ["dulwich.object_store.MemoryObjectStore.__getitem__/get_raw/add_object", "dulwich.object_store.DiskObjectStore."
             "__getitem__/get_raw", "dulwich.object_store.commit_tree_changes", "dulwich.objects.ShaFile.copy/id"]
    bound_g = ("a store (in-memory, loose files, one pack) holding a blob, two trees, a commit and a tag; every history of %s "
               "steps from {fetch any object by name and edit a field, the same and add the result, commit_tree_changes on "
               "the root tree, fetch and read the id}; all names ever stored re-checked after every step")
    return _b01g(tier) + [
        KCheck("C01g.store_history", h_store_history, parts=[{"kind": k, "steps": 2} for k in ("memory", "loose", "packed")],
               encoded=enc_g, bounds=bound_g % "2", outside="longer histories; other stores (overlay, swift)", tiers=("quick",)),
        KCheck("C01g.store_history_3", h_store_history, parts=[{"kind": k, "steps": 3} for k in ("memory", "loose", "packed")],
               encoded=enc_g, bounds=bound_g % "3", outside="longer histories; other stores (overlay, swift)", tiers=("thorough",)),
    ]
