"""C03 — delta codec (pure-Python half; the Rust half is decided through MIR in C15/C03r)."""
from __future__ import annotations

from vf.common import KCheck
from vf.ksym.core import And, Or, Not, SymInt
from vf.ksym.sbytes import SymBytes, _out, elems_of

import dulwich.pack as P
from dulwich.errors import ApplyDeltaError

PROPERTY = "C03"


def _same(a, b):
    """provenance identity of two elements (same symbolic term / same concrete value)"""
    if isinstance(a, SymInt) and isinstance(b, SymInt):
        return a.t.eq(b.t)
    if isinstance(a, int) and isinstance(b, int):
        return a == b
    return False


def _is_slice_of(chunk, whole):
    c, w = elems_of(chunk), elems_of(whole)
    if not c:
        return True
    for s in range(0, len(w) - len(c) + 1):
        if all(_same(c[j], w[s + j]) for j in range(len(c))):
            return True
    return False


def ref_varint(elems, pos):
    """git delta header size (delta.h get_delta_hdr_size): 7 bits per byte, little-endian groups"""
    size, shift = 0, 0
    while True:
        if pos >= len(elems):
            return None, pos
        c = elems[pos]
        pos += 1
        size = size | ((c & 0x7F) << shift)
        shift += 7
        if not (c & 0x80):  # forks exactly where the real decoder already forked
            return size, pos


def h_apply_total(eng, dlen=6, slen=4):
    """every byte string of length dlen as a delta against every base of length slen:
    either ApplyDeltaError, or chunks whose total length is the declared size and each of which is
    a slice of the base or of the delta (provenance checked on the symbolic terms)"""
    delta = eng.bytes("delta", dlen)
    src = eng.bytes("src", slen)
    if slen > 0 and dlen > 0:
        # concentrate on deltas whose declared source size can match (others end at the first check;
        # they are covered by part slen=0.. with arbitrary first byte)
        pass
    try:
        out = P.apply_delta(src, delta)
    except ApplyDeltaError:
        return
    _, p = ref_varint(elems_of(delta), 0)
    declared, p = ref_varint(elems_of(delta), p)
    total = sum(len(c) for c in out)
    eng.observe("out", [c for c in out])
    eng.prove(total == declared, "output length equals the declared target size")
    for c in out:
        if eng.mode == "concrete":
            ok = (bytes(c) in bytes(src)) or (bytes(c) in bytes(delta))
        else:
            ok = _is_slice_of(c, src) or _is_slice_of(c, delta)
        eng.prove(ok, "every output chunk is a slice of the base or a literal from the delta")


def h_header_region(eng, dlen=12):
    """size-varint region: deltas of up to 12 bytes whose bytes are all header material
    (10- and 11-byte size varints, declared sizes up to and beyond 2^63) never escape ApplyDeltaError"""
    delta = eng.bytes("delta", dlen)
    for b in list(delta)[:dlen - 2]:
        eng.assume(b & 0x80 != 0)
    try:
        out = P.apply_delta(b"", delta)
    except ApplyDeltaError:
        return
    eng.prove(sum(len(c) for c in out) >= 0, "returned normally")


def h_encode_size(eng):
    """_delta_encode_size(n) decodes (git reference decoder) to n, canonical length"""
    n = eng.int("n", 0, 2**63 - 1)
    enc = P._delta_encode_size(n)
    e = elems_of(enc)
    v, p = ref_varint(e, 0)
    eng.observe("enc", enc)
    eng.prove(p == len(e), "single varint")
    eng.prove(v == n, "decodes to n")
    k = len(e)
    eng.prove(And(n < (1 << (7 * k)), True if k == 1 else n >= (1 << (7 * (k - 1)))), "minimal length")


def ref_copy_decode(e):
    """git patch-delta.c copy op decode; e = element list starting at the opcode"""
    cmd = e[0]
    p = 1
    off = 0
    size = 0
    for i in range(4):
        if cmd & (1 << i):
            off = off | (e[p] << (8 * i))
            p += 1
    for i in range(3):
        if cmd & (1 << (4 + i)):
            size = size | (e[p] << (8 * i))
            p += 1
    return cmd, off, size, p


def h_encode_copy(eng):
    """_encode_copy_operation(start, length) decodes (git reference) to the same (start, length)"""
    start = eng.int("start", 0, 2**32 - 1)
    length = eng.int("length", 1, 0xFFFF)
    enc = P._encode_copy_operation(start, length)
    e = elems_of(enc)
    eng.observe("enc", enc)
    cmd, off, size, p = ref_copy_decode(e)
    eng.prove(cmd & 0x80 != 0, "copy opcode")
    eng.prove(p == len(e), "no trailing bytes")
    eng.prove(And(off == start, size == length), "decodes to (start,length)")


class _StubMatcher:
    """difflib.SequenceMatcher replaced by *an arbitrary opcode list satisfying difflib's documented
    contract* (contiguous, covering both sequences, 'equal' ranges really equal)."""
    ops = None

    def __init__(self, isjunk=None, a=b"", b=b"", autojunk=True):
        self.a, self.b = a, b

    def get_opcodes(self):
        return _StubMatcher.ops


def h_create_apply(eng, blen=3, tlen=3, nops=2):
    """apply_delta(create_delta(base, target), base) == target for arbitrary valid diff scripts"""
    base = eng.bytes("base", blen)
    target = eng.bytes("target", tlen)
    # symbolic opcode list: cut points in base and target
    ops = []
    i = j = 0
    for k in range(nops):
        last = k == nops - 1
        i2 = blen if last else i + eng.choice(f"di{k}", blen - i + 1)
        j2 = tlen if last else j + eng.choice(f"dj{k}", tlen - j + 1)
        if i2 == i and j2 == j:
            continue
        if i2 - i == j2 - j and eng.bool(f"eq{k}"):
            eng.assume(_out(elems_of(base)[i:i2]) == _out(elems_of(target)[j:j2]))
            tag = "equal"
        elif i2 == i:
            tag = "insert"
        elif j2 == j:
            tag = "delete"
        else:
            tag = "replace"
        ops.append((tag, i, i2, j, j2))
        i, j = i2, j2
    _StubMatcher.ops = ops
    saved = P.SequenceMatcher
    P.SequenceMatcher = _StubMatcher
    try:
        delta = b"".join(P._create_delta_py(base, target)) if eng.mode == "concrete" else \
            SymBytes([]).join(P._create_delta_py(base, target))
    finally:
        P.SequenceMatcher = saved
    out = P.apply_delta(base, delta)
    res = SymBytes([]).join(out) if eng.mode != "concrete" else b"".join(out)
    eng.observe("delta", delta)
    eng.prove(res == target, "apply(create(base,target),base) == target")


def checks(tier):
    q = ("quick", "thorough")
    t = ("thorough",)
    apply_parts_q = [{"dlen": d, "slen": s} for d in range(0, 7) for s in (0, 1, 4) if not (d == 6 and s == 1)]
    return [
        KCheck("C03a.apply_total", h_apply_total, parts=apply_parts_q,
               encoded=["dulwich.pack.apply_delta", "dulwich.pack.chunks_length"],
               bounds="every delta of 0..6 bytes (all 256 values per byte) x every base of 0, 1 or 4 symbolic bytes; "
                      "loop bound |delta| iterations (each consumes >= 1 byte) enforced by the decision budget",
               outside="deltas > 6 bytes in the quick tier (8 thorough); bases other than the listed lengths",
               max_decisions=200,
               pins=[(15, {"delta": [4, 4, 0x90, 4, 0, 0], "src": [1, 2, 3, 4]}),
                     (15, {"delta": [4, 2, 0x91, 1, 2, 0], "src": [1, 2, 3, 4]}),
                     (15, {"delta": [4, 3, 3, 9, 8, 7], "src": [1, 2, 3, 4]}),
                     (13, {"delta": [0, 2, 2, 9, 8], "src": []})], tiers=q),
        KCheck("C03a.apply_total_8", h_apply_total,
               parts=[{"dlen": d, "slen": s} for d in (7, 8) for s in (0, 4)],
               encoded=["dulwich.pack.apply_delta"],
               bounds="every delta of 7 and 8 bytes x bases of 0 and 4 symbolic bytes",
               outside="deltas > 8 bytes", max_decisions=260, time_budget=3000, tiers=t),
        KCheck("C03a.header_region", h_header_region, parts=[{"dlen": n} for n in (2, 3, 10, 11, 12)],
               encoded=["dulwich.pack.apply_delta (get_delta_header_size closure)"],
               bounds="deltas of 2,3,10,11,12 bytes whose first n-2 bytes all have the continuation bit "
                      "(size varints of up to 11 bytes, declared sizes beyond 2^63); width 128 bits with obligations",
               outside="longer size varints", tiers=q),
        KCheck("C03b.encode_size", h_encode_size, encoded=["dulwich.pack._delta_encode_size"],
               bounds="every n in [0, 2^63)", outside="n >= 2^63",
               pins=[(0, {"n": 0}), (0, {"n": 127}), (0, {"n": 128}), (0, {"n": 2**35 + 7})], tiers=q),
        KCheck("C03b.encode_copy", h_encode_copy, encoded=["dulwich.pack._encode_copy_operation"],
               bounds="every start in [0,2^32), every length in [1,0xFFFF]", outside="v3 24-bit lengths",
               pins=[(0, {"start": 0, "length": 1}), (0, {"start": 0x01000000, "length": 0x100}),
                     (0, {"start": 0xFFFFFFFF, "length": 0xFFFF})], tiers=q),
        KCheck("C03c.create_apply", h_create_apply,
               parts=[{"blen": b, "tlen": t_, "nops": 2} for b in (0, 2, 3) for t_ in (0, 2, 3)] +
                     [{"blen": 2, "tlen": 130, "nops": 2}],
               encoded=["dulwich.pack._create_delta_py", "dulwich.pack._delta_encode_size",
                        "dulwich.pack._encode_copy_operation", "dulwich.pack.apply_delta"],
               bounds="base and target of 0,2,3 symbolic bytes (plus target of 130 bytes for the 127-byte insert split), "
                      "every 2-opcode diff script satisfying difflib's contract",
               outside="copy runs > 64 KiB (needs opaque ropes), scripts of > 2 opcodes in the quick tier",
               assumptions=["difflib.SequenceMatcher.get_opcodes is replaced by an arbitrary opcode list satisfying its "
                            "documented contract (contiguous, covering, 'equal' ranges equal)"],
               pins=[(4, {"base": [1, 2], "target": [1, 2], "di0": 2, "dj0": 2, "eq0": True}),
                     (4, {"base": [1, 2], "target": [3, 2], "di0": 1, "dj0": 1, "eq0": False, "eq1": True})],
               tiers=q),
        KCheck("C03c.create_apply_3ops", h_create_apply,
               parts=[{"blen": b, "tlen": t_, "nops": 3} for b in (2, 3, 4) for t_ in (2, 3, 4)],
               encoded=["dulwich.pack._create_delta_py", "dulwich.pack.apply_delta"],
               bounds="base/target of 2..4 symbolic bytes, every 3-opcode valid diff script",
               outside="longer scripts", tiers=t),
    ]


# ---------------------------------------------------------------------------------------------
# (d) at the pack-reading entry points: deltas whose result is the empty string are ordinary deltas
_b03d = checks


def checks(tier):
    from vf.props.C04 import h_delta_graph
    q = ("quick", "thorough")
    return _b03d(tier) + [
        KCheck("C03d.empty_target_in_pack", h_delta_graph,
               parts=[{"n": n, "installed": ins, "empty_last": True} for n in (1, 2) for ins in (True, False)],
               encoded=["dulwich.pack.DeltaChainIterator._resolve_object", "dulwich.pack.Pack.resolve_object", "dulwich.pack.apply_delta",
                        "dulwich.object_store.DiskObjectStore.add_pack"],
               bounds="packs of a blob and 1-2 deltas (kind OFS/REF and base symbolic, as C04e.delta_graph) whose last delta "
                      "produces the empty blob: lookup in an installed pack and ingestion through add_pack return / accept it",
               outside="other object types with empty results (not valid git objects)", tiers=q),
    ]


# ---------------------------------------------------------------------------------------------
# (e) copy runs around the 64 KiB split, at every small base/target offset
_b03e = checks
_RUNS = (0xFFFF, 0x10000, 0x10001, 0x1FFFE, 0x1FFFF)
_PATTERN = bytes((i * 7 + (i >> 8) * 13 + 3) % 251 for i in range(0x20000))


def h_create_apply_long(eng, run=0x10000):
    """a shared run of `run` bytes (around the 0xFFFF / 0x10000 copy-length split) that starts after 0..2 symbolic bytes of
    the base and 0..2 symbolic bytes of the target and is followed by one differing symbolic byte: the delta the pure-Python
    encoder emits for the diff script (prefix edit, equal run, replace) reproduces the target; the run's content is a
    fixed non-periodic pattern so that a copy from the wrong base offset cannot produce the right bytes"""
    i1 = eng.choice("base_prefix", 3)
    j1 = eng.choice("target_prefix", 3)
    body = _PATTERN[:run]
    base = _cat3(eng, eng.bytes("bp", i1), body, eng.bytes("bs", 1))
    target = _cat3(eng, eng.bytes("tp", j1), body, eng.bytes("ts", 1))
    ops = []
    if i1 or j1:
        ops.append(("replace" if i1 and j1 else ("delete" if i1 else "insert"), 0, i1, 0, j1))
    ops.append(("equal", i1, i1 + run, j1, j1 + run))
    ops.append(("replace", i1 + run, i1 + run + 1, j1 + run, j1 + run + 1))
    _StubMatcher.ops = ops
    saved = P.SequenceMatcher
    P.SequenceMatcher = _StubMatcher
    try:
        delta = b"".join(P._create_delta_py(base, target)) if eng.mode == "concrete" else \
            SymBytes([]).join(P._create_delta_py(base, target))
    finally:
        P.SequenceMatcher = saved
    out = P.apply_delta(base, delta)
    res = SymBytes([]).join(out) if eng.mode != "concrete" else b"".join(out)
    eng.prove(len(delta) < 64, "long runs are encoded as copies, not literals")
    eng.prove(res == target, "apply(create(base,target),base) == target across the 64 KiB copy split")


def _cat3(eng, a, b, c):
    if eng.mode == "concrete":
        return bytes(a) + bytes(b) + bytes(c)
    return SymBytes([]).join([a, b, c])


def checks(tier):
    q = ("quick", "thorough")
    return _b03e(tier) + [
        KCheck("C03e.create_apply_long_copy", h_create_apply_long, parts=[{"run": r} for r in _RUNS],
               encoded=["dulwich.pack._create_delta_py", "dulwich.pack._encode_copy_operation", "dulwich.pack.apply_delta"],
               bounds="shared runs of 65535, 65536, 65537, 131070 and 131071 bytes (fixed non-periodic content) starting at base "
                      "offset 0..2 and target offset 0..2 behind symbolic bytes, followed by one symbolic differing byte",
               outside="other run lengths; runs with symbolic content (lengths are concrete per path, see 8.6)",
               assumptions=["difflib.SequenceMatcher.get_opcodes replaced by the diff script named in the bound"], tiers=q),
    ]
