"""C06 — a push reports success exactly for the refs it changed; server refs stay valid."""
from __future__ import annotations

from io import BytesIO

from vf.common import KCheck

import shutil
from dulwich.repo import MemoryRepo, Repo
from vf.interpose import scratch
from dulwich.objects import Blob, Tree, Commit
from dulwich.pack import write_pack_objects
from dulwich.protocol import Protocol, pkt_line, PktLineParser
from dulwich.server import ReceivePackHandler, DictBackend
from dulwich.client import ReportStatusParser
from dulwich.object_format import DEFAULT_OBJECT_FORMAT

PROPERTY = "C06"
ZERO = b"0" * 40
WHO = b"V <v@v>"
R1, R2 = b"refs/heads/one", b"refs/heads/two"


def _commit(n, parents=()):
    b = Blob.from_string(b"blob %d\n" % n)
    t = Tree()
    t.add(b"f", 0o100644, b.id)
    c = Commit()
    c.tree = t.id
    c.parents = list(parents)
    c.author = c.committer = WHO
    c.author_time = c.commit_time = 100 + n
    c.author_timezone = c.commit_timezone = 0
    c.message = b"c%d" % n
    return [b, t, c]


OBJ = {k: _commit(i) for i, k in enumerate("ABCD")}
SHA = {k: v[2].id for k, v in OBJ.items()}


def _run_push(state, cmds, caps):
    """state: {ref: 'A'|'B'|None}; cmds: [(old, new, ref)] with letters/None; returns (repo, status dict, unpack)"""
    d = scratch("c06")
    repo = Repo.init_bare(d)
    repo._vf_dir = d
    for k in "AB":
        for o in OBJ[k]:
            repo.object_store.add_object(o)
    for ref, v in state.items():
        if ref == "_shadow":
            continue
        if v is not None:
            if v == "B" and state.get("_shadow"):
                # loose B shadowing a stale packed A (the ref was packed, then updated)
                repo.refs[ref] = SHA["A"]
                repo.refs.pack_refs(all=True)
            repo.refs[ref] = SHA[v]
    lines = []
    for i, (old, new, ref) in enumerate(cmds):
        l = (SHA[old] if old else ZERO) + b" " + (SHA[new] if new else ZERO) + b" " + ref
        if i == 0:
            l += b"\0" + b" ".join(caps)
        lines.append(pkt_line(l))
    req = b"".join(lines) + pkt_line(None)
    if any(new is not None for _, new, _ in cmds):
        objs = []
        if any(new == "C" for _, new, _ in cmds):
            objs = [(o, None) for o in OBJ["C"]]
        f = BytesIO()
        write_pack_objects(f.write, objs, object_format=DEFAULT_OBJECT_FORMAT)
        req += f.getvalue()
    inf = BytesIO(req)
    out = []
    proto = Protocol(inf.read, out.append)
    h = ReceivePackHandler(DictBackend({b"/": repo}), [b"/"], proto, stateless_rpc=True)
    h.handle()
    proto._close = None
    # decode the report
    frames = []
    p = PktLineParser(frames.append)
    p.parse(b"".join(out))
    if b"side-band-64k" in caps:
        inner = b"".join(f[1:] for f in frames if f and f[:1] == b"\x01")
        frames = []
        p2 = PktLineParser(frames.append)
        p2.parse(inner)
    rsp = ReportStatusParser()
    for fr in frames:
        rsp.handle_packet(fr)
    status = {}
    unpack_ok = True
    try:
        for ref, err in rsp.check():
            status[ref] = err
    except Exception as e:
        unpack_ok = False
    return repo, status, unpack_ok


def _cur(repo, ref):
    try:
        return repo.refs[ref]
    except KeyError:
        return None


def h_push(eng, ncmd=1, atomic=False, sideband=False):
    """receive-pack over pkt-line on a bare disk repository: for every server state and command list, 'ok' is reported for a
    ref exactly when it now holds the requested value and its previous value was the old value the client named;
    other refs are untouched; every ref names an object the server has; atomic pushes apply all or nothing"""
    vals = [None, "A", "B"]
    state = {R1: vals[eng.choice("s1", 3)], R2: vals[eng.choice("s2", 3)]}
    shadow = bool(eng.choice("packed_history", 2))
    news = [None, "A", "B", "C", "D"]
    cmds = []
    for i, ref in enumerate([R1, R2][:ncmd]):
        old = vals[eng.choice(f"old{i}", 3)]
        new = news[eng.choice(f"new{i}", 5)]
        eng.assume(not (old is None and new is None))
        cmds.append((old, new, ref))
    if eng.known("C06-missing-object"):
        eng.assume(all(new != "D" for _, new, _ in cmds))
    caps = [b"report-status", b"delete-refs"]
    if atomic:
        caps.append(b"atomic")
    if sideband:
        caps.append(b"side-band-64k")
    repo, status, unpack_ok = _run_push(dict(state, _shadow=shadow), cmds, caps)
    try:
        _judge(eng, repo, status, unpack_ok, state, cmds, atomic, ncmd)
    finally:
        repo.close()
        shutil.rmtree(repo._vf_dir, ignore_errors=True)


def _judge(eng, repo, status, unpack_ok, state, cmds, atomic, ncmd):
    applied = []
    for old, new, ref in cmds:
        pre = state[ref] and SHA[state[ref]]
        want_old = SHA[old] if old else None
        want_new = SHA[new] if new else None
        post = _cur(repo, ref)
        eng.prove(ref in status or not unpack_ok, f"a status line is reported for {ref!r}")
        ok = status.get(ref, b"missing") is None
        cond = (pre == want_old)
        tag = f"[state={state} cmds={cmds} atomic={atomic}] {ref!r}: pre={pre and pre[:6]} post={post and post[:6]} status={status.get(ref)!r}"
        if ok:
            eng.prove(cond, f"{tag} reported ok although the old value named by the client was stale")
            eng.prove(post == want_new, f"{tag} reported ok but does not hold the requested value")
        else:
            eng.prove(post == pre, f"{tag} reported as rejected but was changed")
        if not cond:
            eng.prove(post == pre and not ok, f"{tag} stale old value: must be left untouched and rejected")
        applied.append(post != pre or (ok and want_new == pre))
        if post is not None:
            eng.prove(post in repo.object_store, f"{tag} ref names an object the server does not have")
    for ref in (R1, R2):
        if ref not in [c[2] for c in cmds]:
            eng.prove(_cur(repo, ref) == (state[ref] and SHA[state[ref]]), "a ref not named in the push is untouched")
    if atomic and ncmd == 2:
        oks = [status.get(c[2], b"x") is None for c in cmds]
        eng.prove(all(oks) or not any(oks), f"atomic push reports all ok or none (state={state} cmds={cmds} status={status})")
        changed = [_cur(repo, c[2]) != (state[c[2]] and SHA[state[c[2]]]) for c in cmds]
        noop = [(SHA[c[1]] if c[1] else None) == (state[c[2]] and SHA[state[c[2]]]) for c in cmds]
        eng.prove(all(ch or no for ch, no in zip(changed, noop)) or not any(changed),
                  f"atomic push applies all updates or none (state={state} cmds={cmds} status={status})")


def checks(tier):
    q = ("quick", "thorough")
    s = "dulwich.server.ReceivePackHandler."
    parts = [{"ncmd": n, "atomic": a, "sideband": sb} for n in (1, 2) for a in (False, True) for sb in (False, True)]
    return [
        KCheck("C06a.receive_pack", h_push, parts=parts,
               encoded=[s + "handle", s + "_apply_pack", s + "_report_status", "dulwich.client.ReportStatusParser",
                        "dulwich.refs.DiskRefsContainer.set_if_equals/remove_if_equals",
                        "dulwich.object_store.DiskObjectStore.add_thin_pack"],
               bounds="server refs one/two each absent, A or B (B optionally as a loose ref over a stale packed A); 1 or 2 commands (old in {0,A,B}, new in {0,A,B, C sent in the pack, "
                      "D not sent and not present}); capabilities report-status, delete-refs, optionally atomic and side-band-64k; "
                      "the real receive-pack handler over an in-memory pkt-line stream with a real pack; the report is decoded "
                      "with the client's own ReportStatusParser",
               outside="hooks; racing pushers (C08 covers the underlying compare-and-swap); MemoryRepo as server backend (its add_thin_pack lacks the max_input_size argument the handler passes: TypeError, noted in DESIGN.md); the local push path",
               tiers=q),
    ]


# ---------------------------------------------------------------------------------------------
# (b) the in-process push path (LocalGitClient.send_pack) with another actor changing the ref between the pusher's
#     snapshot of the remote refs and its updates
_b06b = checks
R1, R2 = b"refs/heads/one", b"refs/heads/two"


def h_local_push(eng, atomic=False, ncmd=1):
    from dulwich.client import LocalGitClient
    d_src, d_dst = scratch("c06s"), scratch("c06d")
    try:
        src = Repo.init_bare(d_src)
        dst = Repo.init_bare(d_dst)
        for k in "ABCD":
            for o in OBJ[k]:
                src.object_store.add_object(o)
        for k in "AB":
            for o in OBJ[k]:
                dst.object_store.add_object(o)
        vals = [None, SHA["A"], SHA["B"]]
        s1 = vals[eng.choice("r1_before", 3)]
        s2 = vals[eng.choice("r2_before", 2)]
        for ref, v in ((R1, s1), (R2, s2)):
            if v is not None:
                dst.refs[ref] = v
        if eng.bool("packed"):
            dst.refs.pack_refs(all=True)
        new1 = [SHA["C"], ZERO][eng.choice("new1", 2)]
        cmds = {R1: new1}
        if ncmd == 2:
            cmds[R2] = [SHA["D"], ZERO][eng.choice("new2", 2)]
        mut = eng.choice("concurrent_change_of_r1", 4)          # none, set A, set B, delete
        m1 = [s1, SHA["A"], SHA["B"], None][mut]
        dst.close()

        def update_refs(old):
            out = dict(old)
            out.update(cmds)
            return out

        def gen(have, want, ofs_delta=True, progress=None):
            other = Repo(d_dst)                                  # the other actor, a separate process' view
            try:
                if mut in (1, 2):
                    other.refs[R1] = m1
                elif mut == 3 and s1 is not None:
                    del other.refs[R1]
            finally:
                other.close()
            return src.generate_pack_data(have, want, ofs_delta=ofs_delta, progress=progress)
        try:
            res = LocalGitClient().send_pack(d_dst, update_refs, gen, atomic=atomic)
            status = dict(res.ref_status or {})
        except Exception as e:
            eng.fail(f"push raised {type(e).__name__}: {e}")
            return
        fin = Repo(d_dst)
        try:
            tag = (f"[r1 {s1 and s1[:4]} -> concurrently {m1 and m1[:4]}, r2 {s2 and s2[:4]}; push {[(k, v[:4]) for k, v in cmds.items()]} "
                   f"atomic={atomic}; status={status}]")
            mid = {R1: m1, R2: s2}
            snap = {R1: s1, R2: s2}
            rejected_any = False
            for ref, new in cmds.items():
                want = None if new == ZERO else new
                try:
                    cur = fin.refs[ref]
                except KeyError:
                    cur = None
                ok = status.get(ref) is None
                stale = mid[ref] != snap[ref]
                if stale and cur == want and want is None:
                    continue                      # corner where both clauses of the property apply (deleting a ref already gone)
                if snap[ref] is None and new == ZERO:
                    continue                      # deleting a ref that never existed: either report is acceptable
                if stale:
                    rejected_any = True
                    eng.prove(not ok, f"{tag} {ref!r} changed after the pusher looked: its update must be reported as rejected")
                    eng.prove(cur == mid[ref], f"{tag} {ref!r} changed after the pusher looked: it must be left untouched (now {cur and cur[:4]})")
                elif not atomic:
                    eng.prove(ok and cur == want, f"{tag} {ref!r} was as the pusher saw it: update applied and reported ok (now {cur and cur[:4]})")
            if atomic:
                rejected_any = any(status.get(ref) is not None for ref in cmds)
                for ref, new in cmds.items():
                    want = None if new == ZERO else new
                    try:
                        cur = fin.refs[ref]
                    except KeyError:
                        cur = None
                    if snap[ref] is None and new == ZERO and not rejected_any:
                        continue
                    if rejected_any:
                        eng.prove(cur == mid[ref], f"{tag} atomic push with a rejected update applied nothing ({ref!r} now {cur and cur[:4]})")
                        eng.prove(status.get(ref) is not None, f"{tag} atomic push with a rejected update reports every ref as failed")
                    elif mid[ref] == snap[ref]:
                        eng.prove(cur == want and status.get(ref) is None, f"{tag} atomic push without conflicts applies everything")
            for ref in (R1, R2):
                try:
                    v = fin.refs[ref]
                except KeyError:
                    continue
                eng.prove(v in fin.object_store, f"{tag} {ref!r} names an object the target has")
        finally:
            fin.close()
        src.close()
    finally:
        shutil.rmtree(d_src, ignore_errors=True)
        shutil.rmtree(d_dst, ignore_errors=True)


def checks(tier):
    q = ("quick", "thorough")
    return _b06b(tier) + [
        KCheck("C06b.local_push", h_local_push, parts=[{"atomic": a, "ncmd": n} for a in (False, True) for n in (1, 2)],
               encoded=["dulwich.client.LocalGitClient.send_pack", "dulwich.refs.DiskRefsContainer.set_if_equals/remove_if_equals",
                        "dulwich.repo.BaseRepo.generate_pack_data", "dulwich.object_store.DiskObjectStore.add_pack_data"],
               bounds="target refs one/two each absent, A or B (loose or packed); the pusher updates or deletes one or both; between "
                      "its snapshot of the target's refs and its updates another actor leaves ref one alone, sets it to A or B, or "
                      "deletes it; atomic on/off; real repositories on /dev/shm",
               outside="network transports; hooks; more than one concurrent change", tiers=q),
    ]


# ---------------------------------------------------------------------------------------------
# (c) two receive-pack sessions racing on one ref, interleaved at file-system-call granularity
_b06c = checks


def _session(d, old, new, ref=R1):
    """one complete receive-pack session (own Repo object) with a single command and an empty pack; returns True iff the
    report says ok for the ref"""
    repo = Repo(d)
    try:
        l = (SHA[old] if old else ZERO) + b" " + (SHA[new] if new else ZERO) + b" " + ref + b"\0report-status delete-refs"
        req = pkt_line(l) + pkt_line(None)
        if new is not None:
            f = BytesIO()
            write_pack_objects(f.write, [], object_format=DEFAULT_OBJECT_FORMAT)
            req += f.getvalue()
        out = []
        proto = Protocol(BytesIO(req).read, out.append)
        ReceivePackHandler(DictBackend({b"/": repo}), [b"/"], proto, stateless_rpc=True).handle()
        proto._close = None
        frames = []
        PktLineParser(frames.append).parse(b"".join(out))
        rsp = ReportStatusParser()
        for fr in frames:
            rsp.handle_packet(fr)
        try:
            st = dict(rsp.check())
        except Exception:
            return False
        return ref in st and st[ref] is None
    finally:
        repo.close()


def h_push_race(eng, first=0, kbase=0):
    """two pushers name the same old value A for refs/heads/one (loose or packed); one moves it to B, the other moves it to C
    or deletes it; one of them is preempted before any one of its file-system calls and the other runs its whole session
    there: at most one of them is told ok, the ref ends up holding exactly the winner's value (or A if neither won)"""
    from vf.interpose import Interposer
    from vf.props.C08 import Sched
    d = scratch("c06r")
    repo = Repo.init_bare(d)
    try:
        for k in "ABC":
            for o in OBJ[k]:
                repo.object_store.add_object(o)
        repo.refs[R1] = SHA["A"]
        if eng.bool("packed"):
            repo.refs.pack_refs(all=True)
        repo.close()
        new_b = ("C", None)[eng.choice("second_pusher", 2)]
        k1 = kbase + eng.choice("preempt_first_at", 50)
        s = Sched(first, k1, None)
        with Interposer(d, s.hook, wrap_reads=True):
            res = s.run([lambda: _session(d, "A", "B"), lambda: _session(d, "A", new_b)])
        eng.assume(s.count.get(first, 0) > k1)
        ok = [r[0] == "ok" and bool(r[1]) for r in res]
        repo = Repo(d)
        cur = _cur(repo, R1)
        tag = f"[second pusher {'deletes' if new_b is None else 'sets C'}; first preempted={'AB'[first]} at call {k1}; results {res}]"
        eng.prove(not (ok[0] and ok[1]), f"{tag} both racing pushers were told ok although both named the same old value")
        if ok[0]:
            eng.prove(cur == SHA["B"], f"{tag} pusher A was told ok but the ref holds {cur and cur[:6]}")
        elif ok[1]:
            eng.prove(cur == (SHA[new_b] if new_b else None), f"{tag} pusher B was told ok but the ref holds {cur and cur[:6]}")
        else:
            eng.prove(cur == SHA["A"], f"{tag} nobody was told ok but the ref moved to {cur and cur[:6]}")
        eng.prove(cur is None or cur in repo.object_store, "the ref names an object the server has")
    finally:
        repo.close()
        shutil.rmtree(d, ignore_errors=True)


def checks(tier):
    q = ("quick", "thorough")
    return _b06c(tier) + [
        KCheck("C06c.push_race", h_push_race, parts=[{"first": f, "kbase": b} for f in (0, 1) for b in range(0, 300, 50)],
               encoded=["dulwich.server.ReceivePackHandler.handle/_apply_pack/_report_status",
                        "dulwich.refs.DiskRefsContainer.set_if_equals/remove_if_equals", "dulwich.file.GitFile"],
               bounds="two receive-pack sessions (separate Repo objects, pkt-line in memory, report-status + delete-refs) naming the "
                      "same old value of one ref (loose or packed): update vs. update and update vs. delete; either pusher "
                      "preempted once before any of its first 300 file-system calls (reads included; a session makes about 290) while the other runs completely",
               outside="2 or more preemptions (C08a takes the underlying compare-and-swap through 2); atomic multi-ref pushes in a race; "
                       "three pushers", time_budget=2400, tiers=q),
    ]
