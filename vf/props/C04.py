"""C04 — corrupt or hostile input is contained; failed ingestion leaves no trace."""
from __future__ import annotations

import os
import shutil
import zlib
from io import BytesIO

from vf.common import KCheck
from vf.interpose import Interposer, scratch, fault
from vf.ksym.core import And, Or, Not
from vf.ksym.sbytes import SymBytes, SymBytesIO, _out, elems_of

import dulwich.objects as O
import dulwich.refs as R
import dulwich.index as IX
import dulwich.bitmap as BM
from dulwich.errors import ObjectFormatException, ChecksumMismatch, ApplyDeltaError
from dulwich.objects import Blob, Tree, Commit, ShaFile
from dulwich.pack import write_pack_objects
from dulwich.object_format import DEFAULT_OBJECT_FORMAT
from dulwich.repo import Repo
from dulwich.object_store import MemoryObjectStore

PROPERTY = "C04"
WHO = b"V <v@v>"

# ------------------------------------------------------------------ (a) decoder containment


def h_parse_tree(eng, n=5, strict=False):
    """parse_tree on every text of n bytes (1-byte object ids): entries or ObjectFormatException, nothing else;
    returned entries re-serialise to a prefix-consistent text"""
    text = eng.bytes("text", n)
    try:
        ents = list(O.parse_tree(text, 1, strict=strict))
    except ObjectFormatException:
        return
    except ValueError:
        return      # an ordinary error (bytes.index on a missing separator); Tree._deserialize wraps it
    total = 0
    for name, mode, hexsha in ents:
        eng.prove(mode >= 0, "mode is a non-negative integer")
        total += 1
    eng.prove(total <= n, "no more entries than bytes")


def h_packed_ref_line(eng, n=6):
    """_split_ref_line on every line of n bytes: (sha, name) or PackedRefsException"""
    line = eng.bytes("line", n)
    try:
        sha, name = R._split_ref_line(line)
    except R.PackedRefsException:
        return
    eng.prove(len(sha) + len(name) <= n, "fields come from the line")


def h_index_header(eng):
    """read_index_header on every 12-byte header: (version in 1..4, count) or a clean refusal"""
    hdr = eng.bytes("hdr", 12)
    f = SymBytesIO(hdr) if eng.mode != "concrete" else BytesIO(hdr)
    try:
        v, cnt = IX.read_index_header(f)
    except (AssertionError, IX.UnsupportedIndexFormat):
        return
    eng.prove(Or(v == 1, v == 2, v == 3, v == 4), "only supported versions are accepted")
    eng.prove(And(cnt >= 0, cnt < 2 ** 32), "entry count is a 32-bit number")


def h_ewah_decode(eng):
    """EWAHBitmap._decode with symbolic header and run-length word: terminates with ValueError or a bit set within the
    declared bit count (no attacker-declared allocation)"""
    bit_count = eng.int("bit_count", 0, 130)
    run_len = eng.int("running_len", 0, 2 ** 32 - 1)
    run_bit = eng.int("running_bit", 0, 1)
    lit = eng.int("literal_words", 0, 3)
    rlw = (lit << 33) | (run_len << 1) | run_bit
    import struct
    if eng.mode == "concrete":
        data = struct.pack(">II", bit_count, 2) + struct.pack(">Q", rlw) + struct.pack(">Q", 0x8000000000000001) + b"\0\0\0\0"
    else:
        from vf.ksym.models import m_struct_pack
        data = m_struct_pack(">II", bit_count, 2) + m_struct_pack(">Q", rlw) + struct.pack(">Q", 0x8000000000000001) + b"\0\0\0\0"
    try:
        bm = BM.EWAHBitmap(data)
    except ValueError:
        return
    mx = ((bit_count + 63) // 64) * 64
    eng.prove(len(bm.bits) <= 192, "decoded bit set is bounded by the declared size, not by the run length")
    for b in bm.bits:
        eng.prove(b < mx, "every decoded bit lies inside the declared bit count")


# ------------------------------------------------------------------ (c) ingestion is all-or-nothing
def _objs(bad=None):
    b = Blob.from_string(b"payload\n")
    t = Tree()
    t.add(b"f", 0o100644, b.id)
    c = Commit()
    c.tree = t.id
    c.parents = []
    c.author = c.committer = WHO
    c.author_time = c.commit_time = 1
    c.author_timezone = c.commit_timezone = 0
    c.message = b"m"
    objs = [b, t, c]
    if bad == "commit":
        objs.append(ShaFile.from_raw_string(Commit.type_num, b"tree zzzz\nnot a commit at all"))
    elif bad == "tag":
        objs.append(ShaFile.from_raw_string(O.Tag.type_num, b"garbage without headers"))
    elif bad == "tree":
        objs.append(ShaFile.from_raw_string(Tree.type_num, b"100644 name-without-terminator"))
    return objs


def _pack_bytes(objs):
    f = BytesIO()
    write_pack_objects(f.write, [(o, None) for o in objs], object_format=DEFAULT_OBJECT_FORMAT)
    return f.getvalue()


def _raw_pack(entries):
    """a syntactically valid pack (count, sizes, trailer) from raw (type_num, payload) entries"""
    import hashlib
    import struct
    body = bytearray(b"PACK" + struct.pack(">LL", 2, len(entries)))
    for type_num, payload in entries:
        size = len(payload)
        c = (type_num << 4) | (size & 0x0F)
        size >>= 4
        while size:
            body.append(c | 0x80)
            c = size & 0x7F
            size >>= 7
        body.append(c)
        body += zlib.compress(payload)
    return bytes(body) + hashlib.sha1(body).digest()


BAD = {
    "commit": (1, b"12345"),
    "commit2": (1, b"tree\nauthor\n\nmsg"),
    "tag": (4, b"12345"),
    "tree": (2, b"this is not a tree at all"),
    "tree2": (2, b"100644 a\0" + b"\x01" * 7),
}


def _visible(store):
    return sorted(store)


def _packdir(d):
    p = os.path.join(d, "objects", "pack")
    return sorted(f for f in os.listdir(p)) if os.path.isdir(p) else []


def _ingest(store, data, how):
    if how == "add_pack":
        f, commit, abort = store.add_pack()
        try:
            f.write(data)
            commit()
        except BaseException:
            abort()
            raise
    elif how == "add_thin_pack":
        src = BytesIO(data)
        store.add_thin_pack(src.read, None)
    else:
        from dulwich.pack import PackStreamReader
        src = BytesIO(data)
        rd = PackStreamReader(DEFAULT_OBJECT_FORMAT.new_hash, src.read)
        store.add_pack_data(len(rd), rd.read_objects()) if False else store.add_thin_pack(src.read, None)


def _judge(eng, store, before, packs_before, d, err, expected_ids, tag):
    after = _visible(store)
    if err is not None:
        eng.prove(after == before, f"{tag}: a failed ingestion leaves the visible objects unchanged ({type(err).__name__}: {str(err)[:60]})")
        pk = _packdir(d)
        eng.prove([f for f in pk if f.endswith(".pack") or f.endswith(".idx")] == packs_before,
                  f"{tag}: no pack or index of the failed ingestion stays installed ({pk})")
    for s in after:
        try:
            o = store[s]
            eng.prove(o.id == s, f"{tag}: every visible object hashes to the name it is stored under")
        except Exception as e:
            eng.fail(f"{tag}: visible object {s!r} unreadable after ingestion: {type(e).__name__}")
    # a fresh process sees the same
    r2 = Repo(d)
    try:
        eng.prove(_visible(r2.object_store) == after, f"{tag}: a re-opened store shows the same objects")
    finally:
        r2.close()


def h_ingest_damaged(eng, how="add_pack", kind="flip"):
    """a small valid pack with one symbolic damage (byte flip at a symbolic offset with a symbolic mask, truncation
    or appended tail) offered to the disk store: either refused without a trace, or every visible object hashes to
    its name"""
    data = bytearray(_pack_bytes(_objs()))
    n = len(data)
    if kind == "flip":
        pos = eng.choice("offset", n)
        mask = [0x01, 0x10, 0x80, 0xFF][eng.choice("mask", 4)]
        data[pos] ^= mask
        tag = f"{how} flip@{pos}^{mask:02x}"
    elif kind == "truncate":
        cut = eng.choice("cut", n)
        data = data[:cut]
        tag = f"{how} truncated@{cut}"
    else:
        extra = [b"\0", b"PACK", b"x" * 20][eng.choice("tail", 3)]
        data = data + extra
        tag = f"{how} tail+{len(extra)}"
    d = scratch("c04")
    try:
        r = Repo.init_bare(d)
        pre = Blob.from_string(b"already here\n")
        r.object_store.add_object(pre)
        before = _visible(r.object_store)
        packs_before = [f for f in _packdir(d) if f.endswith(".pack") or f.endswith(".idx")]
        err = None
        try:
            _ingest(r.object_store, bytes(data), how)
        except Exception as e:
            err = e
        _judge(eng, r.object_store, before, packs_before, d, err, None, tag)
        r.close()
    finally:
        shutil.rmtree(d, ignore_errors=True)


def h_ingest_malformed(eng, how="add_pack"):
    """a checksum-valid pack containing one object whose body does not parse (commit, tag or tree): ingestion fails
    and leaves no trace"""
    bad = sorted(BAD)[eng.choice("bad_kind", len(BAD))]
    data = _raw_pack([(3, b"a perfectly good blob\n"), BAD[bad]])
    d = scratch("c04m")
    try:
        r = Repo.init_bare(d)
        before = _visible(r.object_store)
        packs_before = []
        err = None
        try:
            _ingest(r.object_store, data, how)
        except Exception as e:
            err = e
        eng.prove(err is not None, f"{how}: a pack with a malformed {bad} is refused")
        _judge(eng, r.object_store, before, packs_before, d, err, None, f"{how} malformed {bad}")
        r.close()
    finally:
        shutil.rmtree(d, ignore_errors=True)


def h_ingest_fault(eng, how="add_pack"):
    """a valid pack, but one file-system call of the ingestion fails with EIO (symbolic index): the store is unchanged
    or holds the complete pack"""
    data = _pack_bytes(_objs())
    ids = sorted(o.id for o in _objs())
    k = eng.choice("fault_at", 40)
    d = scratch("c04f")
    try:
        r = Repo.init_bare(d)
        before = _visible(r.object_store)
        hit = []

        def hook(i, name, path):
            if i == k:
                hit.append(name)
                raise fault(name)
        err = None
        with Interposer(d, hook) as ip:
            try:
                _ingest(r.object_store, data, how)
            except Exception as e:
                err = e
        eng.assume(bool(hit))
        after = _visible(r.object_store)
        tag = f"{how} EIO in call {k} ({hit[0]})"
        if err is not None:
            eng.prove(after == before or after == sorted(set(before) | set(ids)),
                      f"{tag}: objects are all there or none ({len(after)} visible)")
        for s in after:
            eng.prove(r.object_store[s].id == s, f"{tag}: visible objects hash to their names")
        r.close()
        r2 = Repo(d)
        try:
            a2 = _visible(r2.object_store)
            eng.prove(a2 == before or a2 == sorted(set(before) | set(ids)), f"{tag}: re-opened store shows all or none")
            for s in a2:
                eng.prove(r2.object_store[s].id == s, f"{tag}: objects of the re-opened store hash to their names")
        finally:
            r2.close()
    finally:
        shutil.rmtree(d, ignore_errors=True)


def h_read_damaged_pack(eng):
    """an installed pack is damaged afterwards (byte flip at a symbolic offset within the object area): every lookup
    either fails with an ordinary error or returns an object that hashes to the requested name"""
    objs = _objs()
    d = scratch("c04r")
    try:
        r = Repo.init_bare(d)
        r.object_store.add_objects([(o, None) for o in objs])
        r.close()
        pk = [f for f in _packdir(d) if f.endswith(".pack")][0]
        path = os.path.join(d, "objects", "pack", pk)
        with open(path, "rb") as fh:
            raw = bytearray(fh.read())
        pos = 12 + eng.choice("offset", len(raw) - 12 - 20)
        mask = [0x10, 0x20, 0x40, 0x01, 0x80][eng.choice("mask", 5)]
        raw[pos] ^= mask
        os.chmod(path, 0o644)
        with open(path, "wb") as fh:
            fh.write(raw)
        r = Repo(d)
        for o in objs:
            try:
                got = r.object_store[o.id]
            except Exception as e:
                eng.prove(isinstance(e, (KeyError, ValueError, AssertionError, OSError, zlib.error, ChecksumMismatch,
                                         ApplyDeltaError, ObjectFormatException, EOFError)),
                          f"damaged pack: lookup fails with an ordinary error ({type(e).__name__})")
                continue
            eng.prove(got.id == o.id and got.type_name == o.type_name,
                      f"damaged pack (flip@{pos}^{mask:02x}): object returned for {o.type_name.decode()} {o.id[:8]!r} hashes to that "
                      f"name (got {got.type_name.decode()} {got.id[:8]!r})")
        r.close()
    finally:
        shutil.rmtree(d, ignore_errors=True)


def checks(tier):
    q = ("quick", "thorough")
    os_ = "dulwich.object_store.DiskObjectStore."
    return [
        KCheck("C04a.parse_tree", h_parse_tree, parts=[{"n": n, "strict": s} for n in range(0, 6) for s in (False, True)],
               encoded=["dulwich.objects.parse_tree"], bounds="every text of 0..5 bytes, 1-byte object ids, strict on/off",
               outside="longer texts (6-7 in C15's comparison with the Rust twin)", max_decisions=600, tiers=q),
        KCheck("C04a.packed_ref_line", h_packed_ref_line, parts=[{"n": n} for n in (0, 1, 3, 5)],
               encoded=["dulwich.refs._split_ref_line", "dulwich.refs.check_ref_format", "dulwich.objects.valid_hexsha"],
               bounds="every line of 0,1,3,5 bytes", outside="well-formed 40-hex lines are exercised concretely by C16", max_decisions=600, tiers=q),
        KCheck("C04a.index_header", h_index_header, encoded=["dulwich.index.read_index_header"],
               bounds="all 2^96 twelve-byte headers in one symbolic run", outside="-", tiers=q),
        KCheck("C04a.ewah_decode", h_ewah_decode, encoded=["dulwich.bitmap.EWAHBitmap._decode"],
               bounds="declared bit count 0..130, running length any 32-bit value, running bit, 0..3 declared literal words, two "
                      "words present", outside="more words", max_decisions=900, conc_cap=400, width=80, tiers=q),
        KCheck("C04c.ingest_damaged", h_ingest_damaged,
               parts=[{"how": h, "kind": k} for h in ("add_pack", "add_thin_pack") for k in ("flip", "truncate", "tail")],
               encoded=[os_ + "add_pack/_complete_pack", os_ + "add_thin_pack", "dulwich.pack.PackStreamReader/PackData/PackIndexer",
                        "dulwich.pack.Pack.check/verify"],
               bounds="a valid 3-object pack (~190 bytes) with one damage: byte XOR with 01/10/80/FF at any offset (symbolic), "
                      "truncation at any offset, or an appended tail; two ingestion paths on a real bare repository holding one "
                      "loose object",
               outside="damage that requires inverting zlib or SHA-1 to stay undetected (not constructible by this technique); "
                       "decompression bombs; MemoryObjectStore", time_budget=1800, tiers=q),
        KCheck("C04c.ingest_malformed", h_ingest_malformed, parts=[{"how": h} for h in ("add_pack", "add_thin_pack")],
               encoded=[os_ + "_complete_pack (post-install validation and roll-back)"],
               bounds="checksum-valid packs containing a good blob and one commit, tag or tree whose body does not parse (5 variants)", outside="other malformations", tiers=q),
        KCheck("C04c.ingest_fault", h_ingest_fault, parts=[{"how": h} for h in ("add_pack", "add_thin_pack")],
               encoded=[os_ + "add_pack/_complete_pack/move_in_pack", "dulwich.file._GitFile"],
               bounds="valid pack; EIO injected into any one of the first 40 file-system calls of the ingestion (symbolic index)",
               outside="two faults", tiers=q),
        KCheck("C04d.read_damaged_pack", h_read_damaged_pack,
               encoded=["dulwich.object_store.BaseObjectStore.__getitem__", "dulwich.pack.Pack.get_raw/resolve_object", "dulwich.pack.unpack_object"],
               bounds="an installed 3-object pack with one byte XOR 10/20/40/01/80 at any offset of the object area (symbolic); "
                      "every object looked up through the store", outside="index damage; multi-bit damage", tiers=q),
    ]


# ---------------------------------------------------------------------------------------------
# (e) crafted delta graphs: bases redirected to themselves, to later entries, in cycles, across OFS/REF kinds
_b04 = checks


class _Hang(BaseException):
    pass


def _with_watchdog(seconds, fn):
    import signal

    def on_alarm(*a):
        raise _Hang()
    old = signal.signal(signal.SIGALRM, on_alarm)
    signal.setitimer(signal.ITIMER_REAL, seconds)
    try:
        return fn()
    finally:
        signal.setitimer(signal.ITIMER_REAL, 0)
        signal.signal(signal.SIGALRM, old)


def h_delta_graph(eng, n=2, installed=True, empty_last=False):
    """a pack of one full blob and n delta entries whose kind (OFS/REF) and base (any entry, itself included; for OFS any
    entry up to itself) are solver-forked, with a matching index: every lookup terminates, fails with an ordinary error
    or returns the bytes the delta graph denotes; ingestion of the same pack leaves no trace unless every object resolves"""
    import binascii
    import hashlib
    import struct
    from dulwich.pack import write_pack_index_v2, UnresolvedDeltas
    base = b"base content\n"
    kinds = [eng.choice(f"kind{i}", 2) for i in range(1, n + 1)]            # 0 OFS, 1 REF
    bases = [eng.choice(f"base{i}", (i + 1) if kinds[i - 1] == 0 else (n + 1)) for i in range(1, n + 1)]
    # what each entry denotes (None if its chain never reaches the full object)
    content = {0: base}
    for _ in range(n + 1):
        for i in range(1, n + 1):
            b = bases[i - 1]
            if i not in content and b in content and b != i:
                content[i] = b"" if (empty_last and i == n) else content[b] + b"+%d" % i
    def name(i):
        if i in content:
            return hashlib.sha1(b"blob %d\0" % len(content[i]) + content[i]).digest()
        return hashlib.sha1(b"unresolvable %d" % i).digest()

    def delta_for(i):
        b = bases[i - 1]
        src = content.get(b, base)
        ins = b"+%d" % i
        if empty_last and i == n:
            return bytes([len(src), 0])                  # a delta whose result is the empty blob
        if not src:
            return bytes([0, len(ins), len(ins)]) + ins
        return bytes([len(src), len(src) + len(ins), 0x90, len(src), len(ins)]) + ins
    # lay the entries out; OFS needs the base's offset, REF its name
    offs = {}
    body = bytearray(b"PACK" + struct.pack(">LL", 2, n + 1))
    raws = {}

    def put(i, type_num, payload, prefix=b""):
        offs[i] = len(body)
        size = len(payload)
        c = (type_num << 4) | (size & 0x0F)
        size >>= 4
        hdr = bytearray()
        while size:
            hdr.append(c | 0x80)
            c = size & 0x7F
            size >>= 7
        hdr.append(c)
        raws[i] = bytes(hdr) + prefix + zlib.compress(payload)
        body.extend(raws[i])
    put(0, 3, base)
    for i in range(1, n + 1):
        b = bases[i - 1]
        if kinds[i - 1] == 0:
            dist = len(body) - offs[b] if b != i else 0
            enc = bytearray([dist & 0x7F])
            dist >>= 7
            while dist:
                dist -= 1
                enc.insert(0, 0x80 | (dist & 0x7F))
                dist >>= 7
            put(i, 6, delta_for(i), bytes(enc))
        else:
            put(i, 7, delta_for(i), name(b))
    pack = bytes(body) + hashlib.sha1(body).digest()
    tag = f"[kinds={['OFS' if k == 0 else 'REF' for k in kinds]} bases={bases}]"
    ok_errors = (KeyError, ValueError, AssertionError, OSError, zlib.error, ChecksumMismatch, ApplyDeltaError, ObjectFormatException,
                 EOFError, UnresolvedDeltas, RecursionError)
    d = scratch("c04e")
    try:
        r = Repo.init_bare(d)
        if installed:
            pdir = os.path.join(d, "objects", "pack")
            stem = os.path.join(pdir, "pack-" + hashlib.sha1(pack).hexdigest())
            with open(stem + ".pack", "wb") as f:
                f.write(pack)
            ents = sorted((name(i), offs[i], binascii.crc32(raws[i]) & 0xFFFFFFFF) for i in range(n + 1))
            with open(stem + ".idx", "wb") as f:
                write_pack_index_v2(f, ents, hashlib.sha1(body).digest())
            for i in range(n + 1):
                hexname = binascii.hexlify(name(i))
                try:
                    got = _with_watchdog(8.0, lambda: r.object_store.get_raw(hexname))
                except _Hang:
                    eng.fail(f"{tag} lookup of entry {i} does not terminate (delta cycle)")
                    continue
                except Exception as e:
                    eng.prove(isinstance(e, ok_errors), f"{tag} lookup of entry {i} fails with an ordinary error ({type(e).__name__})")
                    eng.prove(i not in content, f"{tag} entry {i} resolves in the delta graph, so its lookup must succeed ({type(e).__name__}: {e})")
                    continue
                eng.prove(i in content and got == (3, content[i]), f"{tag} entry {i}: returned bytes are what the delta graph denotes")
        else:
            before = _visible(r.object_store)
            try:
                _with_watchdog(15.0, lambda: _ingest(r.object_store, pack, "add_pack"))
                err = None
            except _Hang:
                eng.fail(f"{tag} ingestion does not terminate")
                return
            except Exception as e:
                err = e
            if err is not None:
                eng.prove(isinstance(err, ok_errors), f"{tag} ingestion fails with an ordinary error ({type(err).__name__})")
                eng.prove(len(content) != n + 1, f"{tag} a well-formed pack in which every delta resolves was refused "
                                                 f"({type(err).__name__}: {err})")
                eng.prove(_visible(r.object_store) == before and not [f for f in _packdir(d) if not f.endswith(".keep")],
                          f"{tag} refused pack leaves no trace: {_packdir(d)}")
            else:
                eng.prove(len(content) == n + 1, f"{tag} a pack with an unresolvable delta was accepted")
                for s in _visible(r.object_store):
                    o = r.object_store[s]
                    eng.prove(o.id == s, f"{tag} every ingested object hashes to its name")
        r.close()
    finally:
        shutil.rmtree(d, ignore_errors=True)


def checks(tier):
    q = ("quick", "thorough")
    return _b04(tier) + [
        KCheck("C04e.delta_graph", h_delta_graph, parts=[{"n": n, "installed": ins} for n in (1, 2, 3) for ins in (True, False)] +
                     [{"n": n, "installed": ins, "empty_last": True} for n in (1, 2) for ins in (True, False)],
               encoded=["dulwich.pack.Pack.get_raw/resolve_object/get_ref", "dulwich.pack.PackData.get_object_at",
                        "dulwich.pack.DeltaChainIterator/PackIndexer (ingestion)", "dulwich.object_store.DiskObjectStore.add_pack"],
               bounds="a pack of one full blob and 1-3 delta entries; every entry's kind (OFS / REF) and base (any entry including "
                      "itself and later ones for REF; any earlier entry or itself, i.e. distance 0, for OFS) symbolic: self "
                      "references, 2- and 3-cycles, mixed OFS/REF cycles, chains into cycles; installed with a matching index "
                      "(every lookup under an 8 s watchdog) or ingested through add_pack; optionally the last delta produces the empty blob",
               outside="cycles through more than 3 deltas or across several packs; thin packs", tiers=q),
    ]


# ---------------------------------------------------------------------------------------------
# (f) index files cut or crafted inside an entry whose name length field is saturated (names >= 4095 bytes)
_b04f = checks


def h_index_long_name(eng, version=2):
    """an index with one short and one long-named entry (name of 0xFFF..0x1001 bytes), truncated at a symbolic position
    relative to the long name, or with the terminating NULs overwritten: reading terminates with an ordinary error
    (or, if nothing relevant was lost, the same entries)"""
    from dulwich.index import Index, IndexEntry
    nlen = [0xFFF, 0x1000, 0x1001][eng.choice("name_len", 3)]
    d = scratch("c04i")
    try:
        path = os.path.join(d, "index")
        idx = Index(path, read=False, version=version)
        e = IndexEntry(ctime=(1, 0), mtime=(1, 0), dev=0, ino=0, mode=0o100644, uid=0, gid=0, size=1, sha=b"1" * 40, flags=0,
                       extended_flags=0)
        long_name = b"d/" + b"n" * (nlen - 2)
        idx[b"a"] = e
        idx[long_name] = e
        idx.write()
        with open(path, "rb") as fh:
            raw = fh.read()
        start = raw.index(long_name)
        kind = eng.choice("damage", 3)
        where = [0, 1, 4094, 4095, nlen - 1, nlen, nlen + 1, nlen + 4][eng.choice("where", 8)]
        if kind == 0:
            data = raw[:start + where]                                   # cut inside / right after the name
        elif kind == 1:
            data = raw[:start + where] + b"n" * (len(raw) - start - where)   # no NUL terminator before end of file
        else:
            data = raw[:start + where] + b"n" * 64                       # unterminated and short
        with open(path, "wb") as fh:
            fh.write(data)
        tag = f"[v{version} name of {nlen} bytes; damage kind {kind} at name+{where}]"
        try:
            got = _with_watchdog(8.0, lambda: Index(path))
        except _Hang:
            eng.fail(f"{tag} reading the index does not terminate")
            return
        except Exception as ex:
            eng.prove(isinstance(ex, (KeyError, ValueError, AssertionError, OSError, ChecksumMismatch, EOFError, IndexError,
                                      __import__("struct").error, ObjectFormatException)),
                      f"{tag} reading fails with an ordinary error ({type(ex).__name__})")
            return
        eng.prove(data == raw and sorted(got) == [b"a", long_name], f"{tag} a damaged index was read without complaint: {sorted(got)[:2]}")
    finally:
        shutil.rmtree(d, ignore_errors=True)


def checks(tier):
    q = ("quick", "thorough")
    return _b04f(tier) + [
        KCheck("C04f.index_long_name", h_index_long_name, parts=[{"version": v} for v in (2, 3, 4)],
               encoded=["dulwich.index.read_cache_entry (saturated name length: read to NUL)", "dulwich.index.read_index_dict_with_version",
                        "dulwich.index.Index.read", "dulwich.pack.SHA1Reader.check_sha"],
               bounds="index versions 2-4 with a name of 0xFFF / 0x1000 / 0x1001 bytes; truncation, or overwriting of everything "
                      "from there on by non-NUL bytes, at 8 positions relative to the name (start, inside, around the 4095th byte, "
                      "end, padding); read under an 8 s watchdog", outside="other positions; several long names", tiers=q),
    ]


# ---------------------------------------------------------------------------------------------
# (g) decompression bombs: an entry that declares a small size but inflates to much more is refused without inflating it
_b04g = checks


def h_inflate_bomb(eng, how="lookup"):
    import binascii
    import hashlib
    import struct
    import tracemalloc
    from dulwich.pack import write_pack_index_v2
    declared = [0, 1, 100][eng.choice("declared_size", 3)]
    actual = [1 << 20, 16 << 20, 48 << 20][eng.choice("inflated_size", 3)]
    stream = zlib.compress(b"\0" * actual, 9)
    c = (3 << 4) | (declared & 0x0F)
    size = declared >> 4
    hdr = bytearray()
    while size:
        hdr.append(c | 0x80)
        c = size & 0x7F
        size >>= 7
    hdr.append(c)
    good = Blob.from_string(b"good\n")
    e_good = bytes([(3 << 4) | 5]) + zlib.compress(b"good\n")
    e_bomb = bytes(hdr) + stream
    body = b"PACK" + struct.pack(">LL", 2, 2) + e_good + e_bomb
    pack = body + hashlib.sha1(body).digest()
    name = hashlib.sha1(b"bomb").digest()
    d = scratch("c04g")
    try:
        r = Repo.init_bare(d)
        tag = f"[{how}: entry declares {declared} bytes, inflates to {actual >> 20} MiB from a {len(stream)}-byte stream]"
        tracemalloc.start()
        tracemalloc.reset_peak()
        base = tracemalloc.get_traced_memory()[0]
        err = None
        try:
            if how == "lookup":
                pdir = os.path.join(d, "objects", "pack")
                stem = os.path.join(pdir, "pack-" + hashlib.sha1(pack).hexdigest())
                with open(stem + ".pack", "wb") as f:
                    f.write(pack)
                ents = sorted([(binascii.unhexlify(good.id), 12, binascii.crc32(e_good) & 0xFFFFFFFF),
                               (name, 12 + len(e_good), binascii.crc32(e_bomb) & 0xFFFFFFFF)])
                with open(stem + ".idx", "wb") as f:
                    write_pack_index_v2(f, ents, hashlib.sha1(body).digest())
                r.object_store.get_raw(binascii.hexlify(name))
            else:
                _ingest(r.object_store, pack, how)
        except Exception as e:
            err = f"{type(e).__name__}: {e}"           # keep no traceback: its frames hold views into the pack's mmap
        peak = tracemalloc.get_traced_memory()[1] - base
        tracemalloc.stop()
        eng.prove(err is not None, f"{tag} the entry is refused")
        eng.prove(peak < (6 << 20), f"{tag} memory used stays in proportion to the data supplied (peak {peak >> 20} MiB)")
        if how != "lookup":
            eng.prove(not [f for f in _packdir(d) if not f.endswith(".keep")] and _visible(r.object_store) == [],
                      f"{tag} the refused pack leaves no trace")
        r.close()
    finally:
        shutil.rmtree(d, ignore_errors=True)


def checks(tier):
    q = ("quick", "thorough")
    return _b04g(tier) + [
        KCheck("C04g.inflate_bomb", h_inflate_bomb, parts=[{"how": h} for h in ("lookup", "add_pack", "add_thin_pack")],
               encoded=["dulwich.pack.read_zlib_chunks_at", "dulwich.pack.read_zlib_chunks", "dulwich.pack.unpack_object/unpack_object_at",
                        "dulwich.object_store.DiskObjectStore.add_pack/add_thin_pack"],
               bounds="a blob entry declaring 0, 1 or 100 bytes whose deflate stream inflates to 1, 16 or 48 MiB, looked up in an "
                      "installed pack or ingested through add_pack / add_thin_pack; peak Python heap (tracemalloc) below 6 MiB",
               outside="allocations outside the Python heap; other entry points (bundles, loose objects)", tiers=q),
    ]
