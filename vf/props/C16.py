"""C16 — ref-name validity = git check-ref-format; ref backends obey one contract."""
from __future__ import annotations

from vf.common import KCheck
from vf.ksym.core import And, Or, Not
from vf.ksym.sbytes import SymBytes, _out, elems_of

import dulwich.refs as R

PROPERTY = "C16"

_BAD = (0x7F, 0x20, ord("~"), ord("^"), ord(":"), ord("?"), ord("*"), ord("["), ord("\\"))


def ref_check_ref_format(e):
    """git check-ref-format (refs.c check_refname_format, no flags) as one boolean expression over
    the elements of a name of fixed length"""
    n = len(e)
    if n == 0:
        return False
    SL, DOT = 47, 46
    conds = []
    conds.append(Or(*[x == SL for x in e]))                                  # at least one '/'
    conds.append(And(*[And(x >= 0x20, *[x != b for b in _BAD]) for x in e]))  # no control/bad chars
    conds.append(And(*[Not(And(e[i] == DOT, e[i + 1] == DOT)) for i in range(n - 1)]) if n > 1 else True)
    conds.append(And(*[Not(And(e[i] == 64, e[i + 1] == 123)) for i in range(n - 1)]) if n > 1 else True)  # @{
    conds.append(And(e[0] != SL, e[-1] != SL, e[-1] != DOT))
    conds.append(And(*[Not(And(e[i] == SL, e[i + 1] == SL)) for i in range(n - 1)]) if n > 1 else True)
    conds.append(e[0] != DOT)
    conds.append(And(*[Not(And(e[i] == SL, e[i + 1] == DOT)) for i in range(n - 1)]) if n > 1 else True)
    lock = list(b".lock")
    for j in range(4, n):   # component ends at j (j == n-1 or next is '/')
        ends = True if j == n - 1 else (e[j + 1] == SL)
        conds.append(Not(And(ends, *[e[j - 4 + k] == lock[k] for k in range(5)])))
    conds.append(Not(And(n == 1, e[0] == 64)))
    return And(*conds)


def _cls(x, c):
    inval = Or(x < 0x20, *[x == b for b in _BAD])
    rel = Or(*[x == b for b in b"lock{"])
    return [inval, x == 47, x == 46, x == 64, rel,
            Not(Or(inval, x == 47, x == 46, x == 64, rel))][c]


def h_check_ref_format(eng, n=4, c0=None, c1=None, fixed=None, pre=0, post=0):
    """check_ref_format(name) == git check-ref-format, for every byte string of length n
    (optionally: partitioned by the character class of the first two bytes; or with a fixed
    infix between `pre` and `post` symbolic bytes)"""
    if fixed is not None:
        a = eng.bytes("pre", pre)
        b = eng.bytes("post", post)
        name = a + fixed + b
        n = len(name)
    else:
        name = eng.bytes("name", n)
    if c0 is not None:
        eng.assume(_cls(elems_of(name)[0], c0))
    if c1 is not None:
        eng.assume(_cls(elems_of(name)[1], c1))
    ref = ref_check_ref_format(elems_of(name))
    try:
        got = R.check_ref_format(name)
    except IndexError:
        eng.prove(n == 0, "only the empty name may index out of range")
        return
    eng.observe("valid", got)
    eng.prove(got == ref, "agrees with git check-ref-format")


def checks(tier):
    q = ("quick", "thorough")
    t = ("thorough",)
    return [
        KCheck("C16a.check_ref_format", h_check_ref_format,
               parts=[{"n": n} for n in (1, 2, 3, 4, 5)] + [{"n": 6, "c0": c} for c in range(6)],
               encoded=["dulwich.refs.check_ref_format"],
               bounds="every byte string of length 1..6 (all 256 values per byte)",
               outside="names longer than 6 bytes (7 and 8 in the thorough tier; '.lock'/'@{' structures up to 9 bytes in "
                       "C16a.structured); the empty name",
               assumptions=["reference model of git check-ref-format transcribed from refs.c / the manual page; validated "
                            "against the installed git binary by tools/validate_git_models.py"],
               max_decisions=400,
               pins=[(3, {"name": list(b"a/b@")}), (4, {"name": list(b"a/@{x")}), (2, {"name": list(b"a/b")}),
                     (4, {"name": list(b"a/b\x1f")[:5]})], tiers=q),
        KCheck("C16a.structured", h_check_ref_format,
               parts=[{"fixed": f, "pre": a, "post": b} for f in (b".lock", b"@{", b"..", b"//")
                      for a in range(0, 4) for b in range(0, 4) if a + b <= 4 and a + b >= 1],
               encoded=["dulwich.refs.check_ref_format"],
               bounds="names pre + X + post with X in {'.lock','@{','..','//'} and pre/post every byte string with "
                      "|pre|+|post| in 1..4 (names of up to 9 bytes)",
               outside="longer surroundings", max_decisions=400,
               pins=[(5, {"pre": list(b"a/b"), "post": []}), (6, {"pre": list(b"a/b"), "post": list(b"x")})], tiers=q),
        KCheck("C16a.check_ref_format_78", h_check_ref_format,
               parts=[{"n": n, "c0": a, "c1": b} for n in (7, 8) for a in range(1, 6) for b in range(6)] +
                     [{"n": n, "c0": 0} for n in (7, 8)],
               encoded=["dulwich.refs.check_ref_format"], bounds="every byte string of length 7 and 8", outside="longer",
               max_decisions=500, time_budget=6000, tiers=t),
    ]
