"""C16 — ref-name validity = git check-ref-format; ref backends obey one contract."""
from __future__ import annotations

from vf.common import KCheck
from vf.ksym.core import And, Or, Not
from vf.ksym.sbytes import SymBytes, _out, elems_of

import dulwich.refs as R

PROPERTY = "C16"

_BAD = (0x7F, 0x20, ord("~"), ord("^"), ord(":"), ord("?"), ord("*"), ord("["), ord("\\"))


def ref_check_ref_format(e):
    """git check-ref-format (refs.c check_refname_format, no flags) as one boolean expression over
    the elements of a name of fixed length"""
    n = len(e)
    if n == 0:
        return False
    SL, DOT = 47, 46
    conds = []
    conds.append(Or(*[x == SL for x in e]))                                  # at least one '/'
    conds.append(And(*[And(x >= 0x20, *[x != b for b in _BAD]) for x in e]))  # no control/bad chars
    conds.append(And(*[Not(And(e[i] == DOT, e[i + 1] == DOT)) for i in range(n - 1)]) if n > 1 else True)
    conds.append(And(*[Not(And(e[i] == 64, e[i + 1] == 123)) for i in range(n - 1)]) if n > 1 else True)  # @{
    conds.append(And(e[0] != SL, e[-1] != SL, e[-1] != DOT))
    conds.append(And(*[Not(And(e[i] == SL, e[i + 1] == SL)) for i in range(n - 1)]) if n > 1 else True)
    conds.append(e[0] != DOT)
    conds.append(And(*[Not(And(e[i] == SL, e[i + 1] == DOT)) for i in range(n - 1)]) if n > 1 else True)
    lock = list(b".lock")
    for j in range(4, n):   # component ends at j (j == n-1 or next is '/')
        ends = True if j == n - 1 else (e[j + 1] == SL)
        conds.append(Not(And(ends, *[e[j - 4 + k] == lock[k] for k in range(5)])))
    conds.append(Not(And(n == 1, e[0] == 64)))
    return And(*conds)


def _cls(x, c):
    inval = Or(x < 0x20, *[x == b for b in _BAD])
    rel = Or(*[x == b for b in b"lock{"])
    return [inval, x == 47, x == 46, x == 64, rel,
            Not(Or(inval, x == 47, x == 46, x == 64, rel))][c]


def h_check_ref_format(eng, n=4, c0=None, c1=None, fixed=None, pre=0, post=0):
    """check_ref_format(name) == git check-ref-format, for every byte string of length n
    (optionally: partitioned by the character class of the first two bytes; or with a fixed
    infix between `pre` and `post` symbolic bytes)"""
    if fixed is not None:
        a = eng.bytes("pre", pre)
        b = eng.bytes("post", post)
        name = a + fixed + b
        n = len(name)
    else:
        name = eng.bytes("name", n)
    if c0 is not None:
        eng.assume(_cls(elems_of(name)[0], c0))
    if c1 is not None:
        eng.assume(_cls(elems_of(name)[1], c1))
    ref = ref_check_ref_format(elems_of(name))
    try:
        got = R.check_ref_format(name)
    except IndexError:
        eng.prove(n == 0, "only the empty name may index out of range")
        return
    eng.observe("valid", got)
    eng.prove(got == ref, "agrees with git check-ref-format")


def checks(tier):
    q = ("quick", "thorough")
    t = ("thorough",)
    return [
        KCheck("C16a.check_ref_format", h_check_ref_format,
               parts=[{"n": n} for n in (1, 2, 3, 4, 5)] + [{"n": 6, "c0": c} for c in range(6)],
               encoded=["dulwich.refs.check_ref_format"],
               bounds="every byte string of length 1..6 (all 256 values per byte)",
               outside="names longer than 6 bytes (7 and 8 in the thorough tier; '.lock'/'@{' structures up to 9 bytes in "
                       "C16a.structured); the empty name",
               assumptions=["reference model of git check-ref-format transcribed from refs.c / the manual page; validated "
                            "against the installed git binary by tools/validate_git_models.py"],
               max_decisions=400,
               pins=[(3, {"name": list(b"a/b@")}), (4, {"name": list(b"a/@{x")}), (2, {"name": list(b"a/b")}),
                     (4, {"name": list(b"a/b\x1f")[:5]})], tiers=q),
        KCheck("C16a.structured", h_check_ref_format,
               parts=[{"fixed": f, "pre": a, "post": b} for f in (b".lock", b"@{", b"..", b"//")
                      for a in range(0, 4) for b in range(0, 4) if a + b <= 4 and a + b >= 1],
               encoded=["dulwich.refs.check_ref_format"],
               bounds="names pre + X + post with X in {'.lock','@{','..','//'} and pre/post every byte string with "
                      "|pre|+|post| in 1..4 (names of up to 9 bytes)",
               outside="longer surroundings", max_decisions=400,
               pins=[(5, {"pre": list(b"a/b"), "post": []}), (6, {"pre": list(b"a/b"), "post": list(b"x")})], tiers=q),
        KCheck("C16a.check_ref_format_78", h_check_ref_format,
               parts=[{"n": n, "c0": a, "c1": b} for n in (7, 8) for a in range(1, 6) for b in range(6)] +
                     [{"n": n, "c0": 0} for n in (7, 8)],
               encoded=["dulwich.refs.check_ref_format"], bounds="every byte string of length 7 and 8", outside="longer",
               max_decisions=500, time_budget=6000, tiers=t),
    ]


# ---------------------------------------------------------------------------------------------
# (b) one step from an arbitrary valid state: real DiskRefsContainer / DictRefsContainer vs a map model
import os
import shutil

A = b"a" * 40
B = b"b" * 40
ZERO = b"0" * 40
RA, RAB, RT, HEAD = b"refs/heads/a", b"refs/heads/a/b", b"refs/tags/t", b"HEAD"
NAMES = [HEAD, RA, RAB, RT]

# per-name states: (loose content or None, packed sha or None)
ST_RA = [(None, None), (A, None), (None, A), (B, A), (b"ref: refs/tags/t", None)]
ST_RAB = [(None, None), (A, None), (None, A)]
ST_RT = [(None, None), (A, None), (None, B)]
ST_HEAD = [(b"ref: refs/heads/a", None), (A, None), (b"ref: refs/heads/a/b", None), (None, None)]
_seq = [0]


def _scratch():
    base = f"/dev/shm/vf-c16-{os.getpid()}"
    _seq[0] += 1
    d = os.path.join(base, str(_seq[0]))
    if os.path.exists(d):
        shutil.rmtree(d)
    os.makedirs(d)
    return d


def _build_disk(d, st):
    packed = {}
    for name, (loose, pk) in st.items():
        if loose is not None:
            p = os.path.join(d.encode(), name)
            os.makedirs(os.path.dirname(p), exist_ok=True)
            with open(p, "wb") as f:
                f.write(loose + b"\n")
        if pk is not None:
            packed[name] = pk
    os.makedirs(os.path.join(d, "refs", "heads"), exist_ok=True)
    os.makedirs(os.path.join(d, "refs", "tags"), exist_ok=True)
    if packed:
        with open(os.path.join(d, "packed-refs"), "wb") as f:
            f.write(b"# pack-refs with: peeled fully-peeled sorted \n")
            for n in sorted(packed):
                f.write(packed[n] + b" " + n + b"\n")


class MapModel:
    """the simple map model of the property: name -> ('sha', v) | ('sym', target)"""

    def __init__(self, st):
        self.m = {}
        for name, (loose, pk) in st.items():
            if loose is not None:
                self.m[name] = ("sym", loose[5:]) if loose.startswith(b"ref: ") else ("sha", loose)
            elif pk is not None:
                self.m[name] = ("sha", pk)

    def follow(self, name):
        seen = []
        while True:
            e = self.m.get(name)
            if e is None:
                return name, None
            if e[0] == "sha":
                return name, e[1]
            seen.append(name)
            name = e[1]
            if name in seen or len(seen) > 5:
                return None, None

    def conflicts(self, real):
        for other in self.m:
            if other != real and (other.startswith(real + b"/") or real.startswith(other + b"/")):
                return True
        return False

    def set_if_equals(self, name, old, new):
        real, cur = self.follow(name)
        if real is None:
            real, cur = name, None
        if old is not None and (cur or ZERO) != old:
            return False
        if real not in self.m and self.conflicts(real):
            return "refused"
        self.m[real] = ("sha", new)
        return True

    def add_if_new(self, name, new):
        real, cur = self.follow(name)
        if real is None:
            return "refused"
        if cur is not None:
            return False
        if self.conflicts(real):
            return "refused"
        self.m[real] = ("sha", new)
        return True

    def remove_if_equals(self, name, old):
        e = self.m.get(name)
        if old is not None:
            cur = ZERO if e is None else (e[1] if e[0] == "sha" else b"ref: " + e[1])
            if cur != old:
                return False
        if e is None and self.conflicts(name):
            return "noop-or-refused"     # deleting an absent name that is a directory of other refs
        self.m.pop(name, None)
        return True

    def set_symbolic_ref(self, name, other):
        if name not in self.m and self.conflicts(name):
            return "refused"
        # a symref that would close a cycle may be refused or created (git creates it)
        seen, cur = {name}, other
        loop = False
        while cur in self.m and self.m[cur][0] == "sym":
            if cur in seen:
                loop = True
                break
            seen.add(cur)
            cur = self.m[cur][1]
        if loop or cur in seen:
            return "loop"
        self.m[name] = ("sym", other)
        return True

    def as_dict(self):
        out = {}
        for n in self.m:
            _, v = self.follow(n)
            if v is not None:
                out[n] = v
        return out

    def symrefs(self):
        return {n: e[1] for n, e in self.m.items() if e[0] == "sym"}


def _observe(c):
    d = {}
    for k in c.allkeys():
        try:
            d[k] = c[k]
        except (KeyError, R.SymrefLoop):
            pass
    return d, dict(c.get_symrefs())


def h_disk_step(eng, opk=0, sib=0):
    """one operation on the real files backend from every small loose/packed/symbolic state equals the map model"""
    st = {
        RA: ST_RA[eng.choice("s_ra", len(ST_RA))],
        RT: ST_RT[eng.choice("s_rt", len(ST_RT))],
        HEAD: ST_HEAD[eng.choice("s_head", len(ST_HEAD))],
    }
    rab = ST_RAB[eng.choice("s_rab", len(ST_RAB))]
    st[RAB] = rab
    # a bystander whose name merely extends refs/heads/a textually (no file/directory collision): never affected, never a
    # reason to refuse
    st[b"refs/heads/ab"] = [(None, None), (B, None), (None, B)][sib]
    eng.assume(not (rab != (None, None) and st[RA] != (None, None)))      # a and a/b never coexist (git refuses)
    ops = ["set_if_equals", "add_if_new", "remove_if_equals", "setitem", "delitem", "set_symbolic_ref", "pack_refs"]
    op = ops[opk]
    name = NAMES[eng.choice("name", 4)]
    old = [None, A, B, ZERO][eng.choice("old", 4)] if op in ("set_if_equals", "remove_if_equals") else None
    new = [A, B][eng.choice("new", 2)] if op in ("set_if_equals", "add_if_new", "setitem") else None
    target = [RA, RT][eng.choice("target", 2)] if op == "set_symbolic_ref" else None
    allrefs = bool(eng.choice("all", 2)) if op == "pack_refs" else None
    if op == "pack_refs" and eng.known("C16-pack-refs-symref"):
        eng.assume(not any(l is not None and l.startswith(b"ref: ") for n, (l, p) in st.items() if n != HEAD))
    d = _scratch()
    try:
        _build_disk(d, st)
        model = MapModel(st)
        c = R.DiskRefsContainer(d)
        # sanity of the harness: the constructed state reads as the model says
        eng.prove(_observe(c) == (model.as_dict(), model.symrefs()), "initial state is read as the map model")
        want = None
        got = None
        try:
            if op == "set_if_equals":
                want = model.set_if_equals(name, old, new)
                got = c.set_if_equals(name, old, new)
            elif op == "add_if_new":
                want = model.add_if_new(name, new)
                got = c.add_if_new(name, new)
            elif op == "remove_if_equals":
                want = model.remove_if_equals(name, old)
                got = c.remove_if_equals(name, old)
            elif op == "setitem":
                want = model.set_if_equals(name, None, new)
                c[name] = new
                got = True
            elif op == "delitem":
                want = model.remove_if_equals(name, None)
                del c[name]
                got = True
            elif op == "set_symbolic_ref":
                eng.assume(name != target)
                want = model.set_symbolic_ref(name, target)
                c.set_symbolic_ref(name, target)
                got = True
                if want == "loop":
                    model.m[name] = ("sym", target)
                    want = True
            else:
                want = True
                c.pack_refs(all=allrefs)
                got = True
        except (OSError, KeyError, ValueError, R.RefFormatError if hasattr(R, "RefFormatError") else OSError) as e:
            got = "refused"
        real = model.follow(name)[0] or name
        if want == "loop":
            eng.prove(got == "refused", "a symref loop is either created or refused")
        elif want == "noop-or-refused":
            eng.prove(got in ("refused", True), f"{op}: deleting an absent, colliding name is a no-op or refused (got {got!r})")
        elif want == "refused" or (want is False and model.conflicts(real)):
            eng.prove(got in ("refused", False), f"{op}: a colliding / unresolvable name is refused (got {got!r})")
        else:
            eng.prove(got == want, f"{op}: result equals the model (model {want!r}, real {got!r})")
        eng.prove(_observe(c) == (model.as_dict(), model.symrefs()), f"{op}: refs and symrefs afterwards equal the model")
        c2 = R.DiskRefsContainer(d)
        eng.prove(_observe(c2) == (model.as_dict(), model.symrefs()), f"{op}: a re-opened container sees the same")
        eng.prove(not [f for dp, dn, fn in os.walk(d) for f in fn if f.endswith(".lock")], "no lock file left behind")
    finally:
        shutil.rmtree(d, ignore_errors=True)


def h_dict_step(eng, opk=0):
    """DictRefsContainer, same model, on sequences that do not write through symrefs or use colliding names"""
    vals = [None, A, B]
    st = {RA: vals[eng.choice("s_ra", 3)], RT: vals[eng.choice("s_rt", 3)], HEAD: [A, b"ref: refs/heads/a"][eng.choice("s_head", 2)]}
    refs = {k: v for k, v in st.items() if v is not None}
    model = MapModel({k: (v, None) for k, v in refs.items()})
    c = R.DictRefsContainer(dict(refs))
    ops = ["set_if_equals", "add_if_new", "remove_if_equals", "setitem", "delitem"]
    op = ops[opk]
    name = [RA, RT][eng.choice("name", 2)]            # direct refs only (documented exclusion: no writes through symrefs)
    old = [None, A, B, ZERO][eng.choice("old", 4)] if op in ("set_if_equals", "remove_if_equals") else None
    new = [A, B][eng.choice("new", 2)] if op in ("set_if_equals", "add_if_new", "setitem") else None
    if op == "set_if_equals":
        want, got = model.set_if_equals(name, old, new), c.set_if_equals(name, old, new)
    elif op == "add_if_new":
        want, got = model.add_if_new(name, new), c.add_if_new(name, new)
    elif op == "remove_if_equals":
        want, got = model.remove_if_equals(name, old), c.remove_if_equals(name, old)
    elif op == "setitem":
        want = model.set_if_equals(name, None, new)
        c[name] = new
        got = True
    else:
        want = model.remove_if_equals(name, None)
        try:
            del c[name]
            got = True
        except KeyError:
            got = True
    eng.prove(got == want, f"{op}: result equals the model")
    eng.prove(_observe(c) == (model.as_dict(), model.symrefs()), f"{op}: state equals the model")


_base_checks = checks


def checks(tier):
    q = ("quick", "thorough")
    r = "dulwich.refs."
    return _base_checks(tier) + [
        KCheck("C16b.disk_step", h_disk_step, parts=[{"opk": k, "sib": s_} for k in range(7) for s_ in range(3)],
               encoded=[r + "DiskRefsContainer.set_if_equals", r + "DiskRefsContainer.add_if_new",
                        r + "DiskRefsContainer.remove_if_equals", r + "DiskRefsContainer.set_symbolic_ref",
                        r + "DiskRefsContainer.pack_refs/add_packed_refs/_remove_packed_ref", r + "RefsContainer.__setitem__/__delitem__/follow",
                        r + "read_packed_refs/write_packed_refs", "dulwich.file.GitFile"],
               bounds="one operation (7 kinds, every name in {HEAD, refs/heads/a, refs/heads/a/b, refs/tags/t}, with a bystander refs/heads/ab absent, loose or packed; old in {None,A,B,0^40}, "
                      "new in {A,B}) from every state in which each ref is absent / loose / packed / loose-shadowing-packed / symbolic "
                      "and HEAD is attached, detached or absent; real temporary directory; by induction over steps this covers "
                      "operation sequences of any length over this state space (closure is asserted: the post-state is again read "
                      "as a model state)",
               outside="peeled tag lines, more than 4 names, reftable and namespaced backends",
               assumptions=["the map model written in vf/props/C16.py (MapModel) is the contract of the property statement"],
               tiers=q),
        KCheck("C16b.dict_step", h_dict_step, parts=[{"opk": k} for k in range(5)],
               encoded=[r + "DictRefsContainer.set_if_equals/add_if_new/remove_if_equals"],
               bounds="one operation on direct refs from every state over {refs/heads/a, refs/tags/t, HEAD}",
               outside="writes through symbolic refs and colliding names (excluded by the property for this backend)", tiers=q),
    ]
