"""C14 — optional acceleration data never changes any answer."""
from __future__ import annotations

import os
import shutil

from vf.common import KCheck
from vf.interpose import scratch
from vf.ksym.core import And, Or, Not
from vf.props.C16 import (MapModel, _build_disk, _observe, A, B, ZERO, RA, RT, HEAD, ST_RA, ST_RT)

import dulwich.bitmap as BM
import dulwich.graph as G
import dulwich.refs as R
from dulwich.objects import Blob, Tree, Commit
from dulwich.repo import Repo, ParentsProvider

PROPERTY = "C14"
WHO = b"V <v@v>"


# ------------------------------------------------------------------ (a) commit-graph
def _history(eng, repo, n, prefix="", existing=()):
    b = Blob.from_string(b"x\n")
    t = Tree()
    t.add(b"f", 0o100644, b.id)
    repo.object_store.add_object(b)
    repo.object_store.add_object(t)
    commits = list(existing)
    base = len(commits)
    for i in range(base, base + n):
        c = Commit()
        c.tree = t.id
        c.parents = [commits[p].id for p in range(i) if bool(eng.bool(f"{prefix}c{i}_p{p}"))]
        c.author = c.committer = WHO
        c.author_time = c.commit_time = 1000 + i
        c.author_timezone = c.commit_timezone = 0
        c.message = b"c%d" % i
        repo.object_store.add_object(c)
        commits.append(c)
    return commits


def h_commit_graph(eng, stale=False, graft_on=None, n=4, octopus=False):
    """with a commit-graph file present (fresh, or stale after the history continued) parents, merge bases and
    fast-forward answers equal those without it; grafts and shallow boundaries keep priority over the graph"""
    d = scratch("c14")
    try:
        r = Repo.init_bare(d)
        if octopus:
            # c0..c2 arbitrary, c3 = octopus merge of all three, c4/c5 with symbolic parents among c0..c4 (a second and
            # third octopus merge possible): exercises the extra-edge list with several merges in it
            class _F:
                def __getattr__(self, nm):
                    return getattr(eng, nm)

                def bool(self, name):
                    if name in ("c3_p0", "c3_p1", "c3_p2"):
                        return True
                    if name in ("c1_p0", "c2_p0", "c2_p1"):
                        return False
                    return eng.bool(name)
            cs = _history(_F(), r, n)
        else:
            cs = _history(eng, r, n)           # n=4 incl. octopus merges (3 parents) for the extra-edge chunk
        r.refs[b"refs/heads/main"] = cs[-1].id
        r.object_store.write_commit_graph()
        if stale:
            cs = _history(eng, r, 1, existing=cs)
            r.refs[b"refs/heads/main"] = cs[-1].id
        r.close()
        r1 = Repo(d)                            # uses the commit-graph
        r2 = Repo(d)
        r2.object_store._use_commit_graph = False
        r2.object_store._commit_graph = None
        eng.prove(r1.object_store.get_commit_graph() is not None, "the commit-graph file is picked up")
        graft_on = len(cs) if graft_on is None else graft_on
        shallow_on = eng.choice("shallow_on", len(cs) + 1) if (graft_on == len(cs) and not octopus) else len(cs)
        grafts = {cs[graft_on].id: [cs[0].id]} if graft_on < len(cs) else {}
        shallows = [cs[shallow_on].id] if shallow_on < len(cs) else []
        p1 = ParentsProvider(r1.object_store, grafts=grafts, shallows=shallows)
        p2 = ParentsProvider(r2.object_store, grafts=grafts, shallows=shallows)
        for c in cs:
            eng.prove(list(p1.get_parents(c.id)) == list(p2.get_parents(c.id)),
                      f"parents of commit {cs.index(c)} equal with and without the commit-graph (graft_on={graft_on} shallow_on={shallow_on})")
        if not grafts and not shallows:
            g = r1.object_store.get_commit_graph()
            for c in cs[:n]:
                gen = g.get_generation_number(c.id)
                want = 1 + max([g.get_generation_number(p) or 0 for p in c.parents], default=0)
                eng.prove(gen == want, "generation number = 1 + max over parents")
            a, b = cs[eng.choice("a", len(cs))], cs[eng.choice("b", len(cs))]
            eng.prove(set(G.find_merge_base(r1, [a.id, b.id])) == set(G.find_merge_base(r2, [a.id, b.id])), "merge base unchanged")
            eng.prove(G.can_fast_forward(r1, a.id, b.id) == G.can_fast_forward(r2, a.id, b.id), "fast-forward answer unchanged")
        r1.close()
        r2.close()
    finally:
        shutil.rmtree(d, ignore_errors=True)


# ------------------------------------------------------------------ (b) EWAH
def ref_ewah_decode(comp, nwords):
    """independent decoder of the EWAH word stream (git ewah/ewah_bitmap.c layout): RLW = running bit (bit 0),
    running length (bits 1-32), literal count (bits 33-63); returns the list of 64-bit words"""
    out = []
    i = 0
    while i < len(comp):
        rlw = comp[i]
        i += 1
        bit = rlw & 1
        run = (rlw >> 1) & 0xFFFFFFFF
        lit = rlw >> 33
        out += [0xFFFFFFFFFFFFFFFF if bit else 0] * int(run)
        for _ in range(int(lit)):
            out.append(comp[i])
            i += 1
    return out


def h_ewah_words(eng, n=3):
    """_encode_ewah_words on n symbolic 64-bit words decodes (reference decoder) to the same words; run and literal
    counts fit their fields"""
    words = [eng.int(f"w{i}", 0, 2 ** 64 - 1) for i in range(n)]
    comp = BM._encode_ewah_words(list(words))
    back = ref_ewah_decode(comp, n)
    eng.prove(len(back) == n, "same number of words")
    eng.prove(And(*[a == b for a, b in zip(back, words)]) if len(back) == n else False, "decoded words equal the input")
    eng.prove(len(comp) <= 2 * n, "no blow-up beyond one marker word per literal run")


BITS = [0, 1, 63, 64, 65, 127, 128, 190, 191]


def h_ewah_roundtrip(eng):
    """EWAHBitmap(bits).encode() -> EWAHBitmap(data): same bit set, for every subset of word-boundary bits"""
    bits = {b for i, b in enumerate(BITS) if bool(eng.bool(f"bit{i}"))}
    if eng.bool("full_word"):
        bits |= set(range(64, 128))
    bm = BM.EWAHBitmap()
    bm.bits = set(bits)
    bm.bit_count = (max(bits) + 1) if bits else 0
    data = bm.encode()
    back = BM.EWAHBitmap(data)
    eng.prove(back.bits == bits, "bit set survives encode/decode")


# ------------------------------------------------------------------ (e) packed refs
def h_packed_equiv(eng, opk=0):
    """the same operation gives the same result and the same observable refs whether or not pack_refs(all) ran before"""
    st = {RA: ST_RA[eng.choice("s_ra", 4)], RT: ST_RT[eng.choice("s_rt", len(ST_RT))], HEAD: (b"ref: refs/heads/a", None)}
    ops = ["set_if_equals", "add_if_new", "remove_if_equals", "read"]
    op = ops[opk]
    name = [HEAD, RA, RT][eng.choice("name", 3)]
    old = [None, A, B, ZERO][eng.choice("old", 4)]
    new = [A, B][eng.choice("new", 2)]
    outs = []
    for pack_first in (False, True):
        d = scratch("c14r")
        try:
            _build_disk(d, st)
            c = R.DiskRefsContainer(d)
            if pack_first:
                c.pack_refs(all=True)
            try:
                if op == "set_if_equals":
                    res = c.set_if_equals(name, old, new)
                elif op == "add_if_new":
                    res = c.add_if_new(name, new)
                elif op == "remove_if_equals":
                    res = c.remove_if_equals(name, old)
                else:
                    res = None
            except (OSError, KeyError, ValueError) as e:
                res = "refused"
            outs.append((res, _observe(R.DiskRefsContainer(d))))
        finally:
            shutil.rmtree(d, ignore_errors=True)
    eng.prove(outs[0] == outs[1], f"{op}({name!r}, {old and old[:2]}, {new[:2]}) from {st}: same result and refs with and without packing first")


def checks(tier):
    q = ("quick", "thorough")
    return [
        KCheck("C14a.commit_graph", h_commit_graph,
               parts=[{"stale": False, "graft_on": g} for g in (None, 1, 2, 3)] + [{"stale": True, "n": 3, "graft_on": g} for g in (None, 2)] +
                     [{"octopus": True, "n": 5, "graft_on": None}],
               encoded=["dulwich.commit_graph.generate_commit_graph/write_commit_graph/read_commit_graph/CommitGraph._parse_chunks",
                        "dulwich.object_store.DiskObjectStore.write_commit_graph/get_commit_graph",
                        "dulwich.repo.ParentsProvider.get_parents", "dulwich.graph.find_merge_base/can_fast_forward"],
               bounds="every history of 4 commits (all parent sets incl. 3-parent octopus merges); commit-graph written by dulwich, "
                      "fresh, or stale (3 commits + one more with any parents added afterwards); a graft on one of several commits or a "
                      "shallow boundary on any commit; every pair of query commits when neither is set; plus histories of 5 commits with "
                      "an octopus merge c3 of three roots and c4 with any parents among the earlier ones (two octopus merges in one "
                      "extra-edge list)",
               outside="commit-graph files written by C git; split commit-graph chains; more than 4+1 commits", tiers=q),
        KCheck("C14b.ewah_words", h_ewah_words, parts=[{"n": n} for n in (1, 2, 3, 4)],
               encoded=["dulwich.bitmap._encode_ewah_words"],
               bounds="every list of 1-4 symbolic 64-bit words (all run / literal boundary patterns), reference decoder of the EWAH "
                      "word layout", outside="more than 4 words; runs longer than 2^32 words", width=80, tiers=q),
        KCheck("C14b.ewah_roundtrip", h_ewah_roundtrip,
               encoded=["dulwich.bitmap.EWAHBitmap.encode", "dulwich.bitmap.EWAHBitmap._decode", "dulwich.bitmap._encode_ewah_words"],
               bounds="every subset of the bits {0,1,63,64,65,127,128,190,191}, optionally with a completely set middle word",
               outside="other bit positions (per-bit loops over symbolic literal words would fork 2^64 ways)", tiers=q),
        KCheck("C14e.packed_refs", h_packed_equiv, parts=[{"opk": k} for k in range(4)],
               encoded=["dulwich.refs.DiskRefsContainer.pack_refs", "dulwich.refs.DiskRefsContainer.set_if_equals/add_if_new/remove_if_equals",
                        "dulwich.refs.DiskRefsContainer.get_packed_refs"],
               bounds="every state of refs/heads/a (absent, loose, packed, loose over stale packed) and refs/tags/t, HEAD attached; "
                      "one conditional set / create / delete / read with every argument combination, run with and without "
                      "pack_refs(all=True) before it",
               outside="the multi-pack-index dimension is decided in C10c (stale index after repack/gc); bitmaps: see not covered", tiers=q),
    ]


# ---------------------------------------------------------------------------------------------
# (f) a multi-pack-index that was built for other packs (copied from another repository, or left over) is not trusted
_b14f = checks


def h_foreign_midx(eng):
    """repository A (objects in 1-2 packs, some loose) gets the multi-pack-index of repository B, which has the same or a
    different number of packs and possibly shares objects: every lookup / containment answer about A's and B's objects
    is the same as without the file"""
    from vf.symrepo import build_graph
    da, db = scratch("c14fa"), scratch("c14fb")
    try:
        ra, rb = Repo.init_bare(da), Repo.init_bare(db)
        npa = 1 + eng.choice("packs_in_A_minus_1", 2)
        npb = 1 + eng.choice("packs_in_B_minus_1", 2)
        share = bool(eng.bool("B_shares_objects_with_A"))

        def fill(repo, npacks, salt):
            objs = []
            for i in range(npacks):
                b = Blob.from_string(b"%s blob %d\n" % (salt, i))
                t = Tree()
                t.add(b"f", 0o100644, b.id)
                repo.object_store.add_objects([(b, None), (t, None)])
                objs += [b, t]
            return objs
        oa = fill(ra, npa, b"A")
        ob = fill(rb, npb, b"A" if share else b"B")
        extra = Blob.from_string(b"loose in A\n")
        ra.object_store.add_object(extra)
        rb.object_store.write_midx()
        ra.close()
        rb.close()
        import shutil as _sh
        if eng.bool("copy_foreign_midx"):
            _sh.copy(os.path.join(db, "objects", "pack", "multi-pack-index"), os.path.join(da, "objects", "pack", "multi-pack-index"))
        else:
            # A's own index, then one more pack is added behind its back (stale, fewer packs than present)
            r = Repo(da)
            r.object_store.write_midx()
            b = Blob.from_string(b"added after the midx\n")
            r.object_store.add_objects([(b, None)])
            oa.append(b)
            r.close()
        r1, r2 = Repo(da), Repo(da)
        r2.object_store._use_midx = False
        r2.object_store._midx = None
        probes = [o.id for o in oa + ob + [extra]] + [b"f" * 40]
        for s in probes:
            a1, a2 = s in r1.object_store, s in r2.object_store
            eng.prove(a1 == a2, f"'in' answers the same with and without the multi-pack-index for {s[:8]!r} ({a1} vs {a2}; packs A={npa} B={npb} share={share})")
            c1, c2 = r1.object_store.contains_packed(s), r2.object_store.contains_packed(s)
            eng.prove(c1 == c2, f"contains_packed the same for {s[:8]!r} ({c1} vs {c2}; packs A={npa} B={npb} share={share})")
            def get(st):
                try:
                    return st.get_raw(s)
                except KeyError:
                    return "missing"
                except Exception as e:
                    return f"error {type(e).__name__}"
            g1, g2 = get(r1.object_store), get(r2.object_store)
            eng.prove(g1 == g2, f"get_raw the same for {s[:8]!r} ({str(g1)[:40]} vs {str(g2)[:40]}; packs A={npa} B={npb} share={share})")
        r1.close()
        r2.close()
    finally:
        shutil.rmtree(da, ignore_errors=True)
        shutil.rmtree(db, ignore_errors=True)


def checks(tier):
    q = ("quick", "thorough")
    return _b14f(tier) + [
        KCheck("C14f.foreign_midx", h_foreign_midx,
               encoded=["dulwich.object_store.DiskObjectStore.contains_packed/__contains__/get_raw/get_midx/_get_pack_by_name",
                        "dulwich.midx.MultiPackIndex.object_offset/load_midx"],
               bounds="repository A with 1-2 packs and a loose object receives the multi-pack-index written for repository B (1-2 "
                      "packs, same or different pack count, sharing A's objects or not), or keeps its own index while a pack is "
                      "added afterwards; 'in', contains_packed and get_raw for every object of A and B and an absent name",
               outside="midx files written by C git; bitmap/reverse-index chunks", tiers=q),
    ]


# ---------------------------------------------------------------------------------------------
# (d) pack bitmaps: XOR-compressed entries (also chains of them) denote the intended bit sets
_b14d = checks


def h_bitmap_xor_chain(eng, n=3):
    """n bitmap entries over 65 objects with symbolic bit sets; every entry after the first is stored as the XOR against an
    earlier entry at a symbolic distance (0 = stored plainly), so chains of XOR-compressed entries arise; get_bitmap(sha)
    returns each entry's intended bit set, in memory and after write_bitmap_file / read_bitmap_file"""
    import io
    from dulwich.bitmap import PackBitmap, BitmapEntry, EWAHBitmap, write_bitmap_file, read_bitmap_file

    def ewah(bits):
        b = EWAHBitmap()
        b.bits = set(bits)
        b.bit_count = 65
        return b
    want = [{k for k in range(2) if bool(eng.bool(f"e{i}_bit{k}"))} | ({64} if bool(eng.bool(f"e{i}_bit64")) else set()) for i in range(n)]
    xors = [0] + [eng.choice(f"e{i}_xor_distance", i + 1) for i in range(1, n)]
    shas = [bytes([i + 1]) * 20 for i in range(n)]
    pb = PackBitmap()
    for t in ("commit_bitmap", "tree_bitmap", "blob_bitmap", "tag_bitmap"):
        setattr(pb, t, ewah(set()))
    for i in range(n):
        stored = want[i] ^ (want[i - xors[i]] if xors[i] else set())
        e = BitmapEntry(object_pos=i, xor_offset=xors[i], flags=0, bitmap=ewah(stored))
        pb.entries[shas[i]] = e
        pb.entries_list.append((shas[i], e))
    tag = f"[xor distances {xors}, bit sets {[sorted(w) for w in want]}]"
    for i in range(n):
        got = pb.get_bitmap(shas[i])
        eng.prove(got is not None and set(got.bits) == want[i], f"{tag} entry {i} denotes its bit set (got {got is not None and sorted(got.bits)})")
    f = io.BytesIO()
    write_bitmap_file(f, pb)

    class _Idx:
        def __init__(self, names):
            self.names = names

        def _unpack_name(self, i):
            return self.names[i]

        def __len__(self):
            return len(self.names)
    try:
        back = read_bitmap_file(io.BytesIO(f.getvalue()))
    except Exception as ex:
        eng.fail(f"{tag} a bitmap file written by dulwich cannot be read back: {type(ex).__name__}: {ex}")
        return
    eng.prove(len(back.entries) == n, f"{tag} all entries survive the file round trip ({len(back.entries)})")
    keys = [k for k, _ in back.entries_list]
    for i in range(min(n, len(keys))):
        got = back.get_bitmap(keys[i])
        eng.prove(got is not None and set(got.bits) == want[i], f"{tag} entry {i} denotes its bit set after write and read "
                                                              f"(got {got is not None and sorted(got.bits)})")


def checks(tier):
    q = ("quick", "thorough")
    return _b14d(tier) + [
        KCheck("C14d.bitmap_xor_chain", h_bitmap_xor_chain, parts=[{"n": 2}, {"n": 3}],
               encoded=["dulwich.bitmap.PackBitmap.get_bitmap", "dulwich.bitmap.EWAHBitmap.__xor__/encode/_decode",
                        "dulwich.bitmap.write_bitmap_file/read_bitmap_file"],
               bounds="2-3 bitmap entries with every bit set over {0,1,64} and every choice of XOR distance (0 = plain, or any "
                      "earlier entry, so chains of XOR-compressed entries of depth 2 arise); in memory and after a file round trip",
               outside="reachability answers computed from bitmaps of real packs (hundreds of objects are needed before the writer "
                       "XOR-compresses anything); lookup tables; bitmaps written by C git", tiers=q),
    ]
