"""./check <ID> [--tier quick|thorough] [--replay PATH] [--only SUBSTR]"""
from __future__ import annotations

import argparse
import importlib
import json
import os
import sys
import time

from . import common
from .common import EXIT_OK, EXIT_VIOLATION, EXIT_INCONCLUSIVE


def main():
    ap = argparse.ArgumentParser()
    ap.add_argument("prop")
    ap.add_argument("--tier", default=os.environ.get("VERIF_TIER", "quick"), choices=["quick", "thorough"])
    ap.add_argument("--replay")
    ap.add_argument("--only", default=None, help="run only sub-checks whose name contains this")
    ap.add_argument("--procs", type=int, default=int(os.environ.get("VERIF_PROCS", "16")))
    a = ap.parse_args()
    seed = int(os.environ.get("VERIF_SEED", "0") or 0)
    prop = a.prop
    modname = f"vf.props.{prop}"

    if a.replay:
        blob = json.load(open(a.replay))
        r = common.replay_native(blob["module"], blob["check"], blob["part"], blob["inputs"])
        print(json.dumps(r))
        if r["outcome"] == "violation":
            print(f"VIOLATION property={prop} replay={a.replay}")
            return EXIT_VIOLATION
        return EXIT_OK if r["outcome"] in ("ok", "assume") else EXIT_INCONCLUSIVE

    t0 = time.time()
    from .ksym import rewrite
    rewrite.install()
    mod = importlib.import_module(modname)
    checks = [c for c in mod.checks(a.tier) if a.tier in c.tiers]
    if a.only:
        checks = [c for c in checks if a.only in c.name]
    known = common.known_ids_for(prop)

    kchecks = [c for c in checks if c.kind == "ksym"]
    xchecks = [c for c in checks if c.kind != "ksym"]

    # ---- E2 jobs: symbolic exploration + pinned translator validation
    jobs = []
    for c in kchecks:
        for i in range(len(c.parts)):
            jobs.append((modname, c.name, i, known, None))
    pin_jobs = []
    for c in kchecks:
        for (pidx, pin) in c.pins:
            pin_jobs.append((modname, c.name, pidx, known, pin))
    results = common.run_pool(common._ksym_job, jobs + pin_jobs, a.procs)
    sym_results = results[:len(jobs)]
    pin_results = results[len(jobs):]

    per_check = {}
    confirmed = []
    inconclusive = []
    sources = {}
    for r in sym_results:
        pc = per_check.setdefault(r["check"], {"paths": 0, "reached": 0, "proved": 0, "trivial": 0, "queries": 0,
                                               "solver_s": 0.0, "cpu_s": 0.0, "width_obligations": 0,
                                               "samples": [], "parts": 0, "outcomes": {}})
        for k in ("paths", "reached", "proved", "trivial", "queries", "width_obligations"):
            pc[k] += r.get(k, 0)
        pc["solver_s"] = round(pc["solver_s"] + r.get("solver_s", 0), 3)
        pc["cpu_s"] = round(pc["cpu_s"] + r.get("wall_s", 0), 3)
        pc["parts"] += 1
        for k, v in r.get("outcomes", {}).items():
            pc["outcomes"][k] = pc["outcomes"].get(k, 0) + v
        if len(pc["samples"]) < 3:
            pc["samples"] += r.get("samples", [])[:1]
        sources.update(r.get("sources", {}))
        for m in r.get("inconclusive", []):
            inconclusive.append(f"{r['check']}[{r['part']}]: {m}")
        for v in r.get("violations", []):
            rp = common.replay_native(modname, r["check"], r["part"], v["inputs"])
            if rp["outcome"] == "violation":
                path = common.save_replay(prop, r["check"], modname, r["part"], v["inputs"],
                                          rp.get("detail") or v["label"])
                confirmed.append({"check": r["check"], "label": v["label"], "inputs": v["inputs"], "replay": path,
                                  "native": rp.get("detail")})
            else:
                inconclusive.append(f"{r['check']}[{r['part']}]: counterexample for {v['label']!r} did not "
                                    f"reproduce natively ({rp['outcome']}: {rp.get('detail')}) inputs={v['inputs']}")

    # ---- translator validation: pinned symbolic run == native run
    tv_ok = tv_n = 0
    for (job, r) in zip(pin_jobs, pin_results):
        tv_n += 1
        nat = common.replay_native(modname, job[1], job[2], job[4])
        sym_out = r.get("pinned_outcome")
        if r.get("inconclusive"):
            inconclusive.append(f"{job[1]}: translator validation run inconclusive: {r['inconclusive'][:1]}")
        elif sym_out != nat["outcome"] or json.loads(json.dumps(r.get("observed"))) != nat.get("observed"):
            inconclusive.append(f"{job[1]}: translator validation mismatch on {job[4]}: "
                                f"ksym={sym_out}/{r.get('observed')} native={nat['outcome']}/{nat.get('observed')}")
        else:
            tv_ok += 1

    # ---- other engines
    xinfo = {}
    for c in xchecks:
        info = c.run(a.tier, known, a.procs, seed)
        xinfo[c.name] = info
        for v in info.pop("confirmed", []):
            path = common.save_replay(prop, c.name, modname, v.get("part", 0), v["inputs"], v.get("label", ""))
            v["replay"] = path
            v["check"] = c.name
            confirmed.append(v)
        inconclusive += [f"{c.name}: {m}" for m in info.pop("inconclusive", [])]

    # ---- known findings: replay each listed witness; print the line only if it still fails
    known_lines = []
    for f in common.load_known():
        if f["property"] != prop or f.get("status") != "known":
            continue
        c = next((c for c in mod.checks("thorough") if c.name == f["check"]), None)
        if c is None:
            inconclusive.append(f"known finding {f['id']} names unknown check {f['check']}")
            continue
        if c.kind == "ksym":
            rp = common.replay_native(modname, f["check"], f.get("part", 0), f["witness"])
        else:
            rp = c.replay(f["witness"], f.get("part", 0))
        if rp["outcome"] == "violation":
            known_lines.append(f"KNOWN-FINDING: property={prop} {f['id']}: {f['what']}")
        f["_witness_outcome"] = rp["outcome"]

    wall = time.time() - t0
    # ---- evidence
    allc = {c.name: c for c in checks}
    paths = sum(p["paths"] for p in per_check.values()) + sum(x.get("paths", 0) for x in xinfo.values())
    reached = sum(p["reached"] for p in per_check.values()) + sum(x.get("reached", 0) for x in xinfo.values())
    obligations = sum(p["proved"] + p["trivial"] + p["width_obligations"] for p in per_check.values()) + \
        sum(x.get("obligations", 0) for x in xinfo.values())
    details = []
    for name, c in allc.items():
        d = {"check": name, "engine": c.engine, "functions_encoded": c.encoded, "bounds": c.bounds,
             "outside_the_claim": c.outside, "tier": a.tier}
        d.update(per_check.get(name, {}))
        d.update(xinfo.get(name, {}))
        details.append(d)
    samples = []
    for d in details:
        for s in d.get("samples", [])[:2]:
            samples.append({"check": d["check"], "reachability_witness": s})
    assumptions = []
    for c in checks:
        for s in c.assumptions:
            if s not in assumptions:
                assumptions.append(s)
    coverage = {
        "explanation": "bounded symbolic verification: the real dulwich functions named under checks[].functions_encoded "
                       "are executed on symbolic inputs (ksym: instrumented real source on z3 bit-vector proxies; "
                       "CrossHair: real bytecode on z3 ints/bools); every path's assertion is decided by the SMT solver "
                       "for all values inside the stated bounds; counterexamples are replayed natively before being reported",
        "evaluations": paths,
        "distinct_nontrivial": reached,
        "rule": "one evaluation = one explored path (disjoint path condition over the symbolic inputs); non-trivial = "
                "the path reached at least one property assertion with a satisfiable path condition (reachability witness)",
        "obligations": obligations,
        "discharged": obligations if not inconclusive else max(0, obligations - len(inconclusive)),
        "checker_cmd": f"./check {prop} --tier {a.tier}",
        "trusted_base": ["z3 5.1 (solver verdicts)", "ksym proxies and builtin models (vf/ksym, differential-tested)",
                         "CrossHair 0.0.110 (E1 harnesses)", "CPython 3.12"],
        "samples": samples[:12] or [{"note": "no path reached an assertion"}],
        "checks": details,
        "source_hashes": sources,
        "translator_validation": {"vectors": tv_n, "agree": tv_ok},
        "known_findings_replayed": [{"id": f["id"], "outcome": f.get("_witness_outcome")} for f in common.load_known()
                                    if f["property"] == prop and f.get("status") == "known"],
        "inconclusive": inconclusive[:20],
        "confirmed_violations": confirmed[:10],
        "solver_s": round(sum(p["solver_s"] for p in per_check.values()) + sum(x.get("solver_s", 0) for x in xinfo.values()), 2),
        "queries": sum(p["queries"] for p in per_check.values()) + sum(x.get("queries", 0) for x in xinfo.values()),
    }
    common.write_evidence(prop, a.tier, seed, wall, coverage, assumptions, len(confirmed))

    for d in details:
        print(f"[{prop}] {d['check']}: paths={d.get('paths', 0)} reached={d.get('reached', 0)} "
              f"proved={d.get('proved', 0)} trivial={d.get('trivial', 0)} queries={d.get('queries', 0)} "
              f"solver_s={d.get('solver_s', 0)} cpu_s={d.get('cpu_s', 0)}")
    for l in known_lines:
        print(l)
    for m in inconclusive[:20]:
        print(f"INCONCLUSIVE {m}")
    shown = {}
    for v in confirmed:
        shown[v["check"]] = shown.get(v["check"], 0) + 1
        if shown[v["check"]] > 3:
            continue
        print(f"  counterexample {v['check']}: {v.get('label')} inputs={json.dumps(v['inputs'], default=str)[:400]}")
        print(f"VIOLATION property={prop} replay={v['replay']}")
    for c, k in shown.items():
        if k > 3:
            print(f"  ... {k - 3} more confirmed counterexamples for {c}")
    print(f"[{prop}] tier={a.tier} wall={wall:.1f}s translator-validation {tv_ok}/{tv_n}")
    if confirmed:
        return EXIT_VIOLATION
    if inconclusive:
        return EXIT_INCONCLUSIVE
    return EXIT_OK


if __name__ == "__main__":
    sys.exit(main())
