"""Build the Rust extension modules from /repo's *current* crates/ (offline) and load them side by side with the
pure-Python twins.  Build output lives in /verif/.cache (git-ignored, re-created on demand)."""
from __future__ import annotations

import hashlib
import importlib.machinery
import importlib.util
import os
import shutil
import subprocess

from .common import VERIF, REPO

CACHE = os.path.join(VERIF, ".cache", "rb" + ("" if REPO == "/repo" else "-" + hashlib.sha1(REPO.encode()).hexdigest()[:8]))
LIBS = {"_pack": "libpack_py.so", "_objects": "libobjects_py.so", "_diff_tree": "libdiff_tree_py.so"}


def build(timeout=900):
    """returns {modname: path to .so}; raises RuntimeError if the extension does not build"""
    import fcntl
    src = os.path.join(CACHE, "src")
    os.makedirs(src, exist_ok=True)
    lock = open(os.path.join(CACHE, "build.lock"), "w")
    fcntl.flock(lock, fcntl.LOCK_EX)
    for f in ("Cargo.toml", "Cargo.lock"):
        shutil.copy2(os.path.join(REPO, f), os.path.join(src, f))
    dst = os.path.join(src, "crates")
    shutil.rmtree(dst, ignore_errors=True)
    shutil.copytree(os.path.join(REPO, "crates"), dst)
    env = dict(os.environ, CARGO_NET_OFFLINE="true", CARGO_TARGET_DIR=os.path.join(CACHE, "target"),
               PYO3_PYTHON="/venv/bin/python")
    p = subprocess.run(["cargo", "build", "--offline"], cwd=src, env=env, capture_output=True, text=True, timeout=timeout)
    if p.returncode != 0:
        raise RuntimeError("cargo build failed: " + p.stderr[-1500:])
    out = {}
    for mod, lib in LIBS.items():
        path = os.path.join(CACHE, "target", "debug", lib)
        if not os.path.exists(path):
            raise RuntimeError(f"{lib} not produced")
        out[mod] = path
    return out


def source_hash():
    h = hashlib.sha256()
    for dp, dn, fn in sorted(os.walk(os.path.join(REPO, "crates"))):
        for f in sorted(fn):
            with open(os.path.join(dp, f), "rb") as fh:
                h.update(fh.read())
    return h.hexdigest()[:16]


def load(paths, mod):
    """load one freshly built extension module under a private name"""
    loader = importlib.machinery.ExtensionFileLoader("dulwich." + mod, paths[mod])
    spec = importlib.util.spec_from_loader("dulwich." + mod, loader)
    m = importlib.util.module_from_spec(spec)
    loader.exec_module(m)
    return m
