"""Replay one concrete input vector of a harness against the uninstrumented real code."""
from __future__ import annotations

import importlib
import json
import sys


def main():
    src = sys.argv[1]
    blob = json.load(sys.stdin if src == "-" else open(src))
    import os
    sys.path.insert(0, os.environ.get("VERIF_REPO", "/repo"))
    for ext in ("dulwich._pack", "dulwich._objects", "dulwich._diff_tree"):
        sys.modules[ext] = None
    mod = importlib.import_module(blob["module"])
    chk = next(c for c in mod.checks("thorough") if c.name == blob["check"])
    if chk.kind != "ksym":
        r = chk.replay_here(blob["inputs"], blob.get("part", 0))
    else:
        from vf.ksym.harness import run_concrete
        r = run_concrete(chk.fn, blob["inputs"], chk.parts[blob.get("part", 0)])
    print(json.dumps(r))


if __name__ == "__main__":
    main()
