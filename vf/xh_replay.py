"""native replay of one CrossHair counterexample: call the harness function on concrete arguments"""
import importlib
import json
import os
import sys


def main():
    blob = json.load(sys.stdin)
    os.environ["VF_PART"] = json.dumps(blob.get("part") or {})
    os.environ["VF_KNOWN"] = ""
    from vf.xh import _dec
    mod = importlib.import_module(blob["module"])
    fn = getattr(mod, blob["func"])
    args = _dec(blob["inputs"])
    try:
        r = fn(**args)
    except Exception as e:
        print(json.dumps({"outcome": "violation", "detail": f"unexpected {type(e).__name__}: {e}"}))
        return
    if r:
        print(json.dumps({"outcome": "ok", "detail": ""}))
    else:
        print(json.dumps({"outcome": "violation", "detail": str(getattr(mod, "DETAIL", ""))[:500]}))


if __name__ == "__main__":
    main()
