"""Symbolic small repositories shared by C05/C10/C14: the *shape* (commit edges, tree membership of blobs,
tag chain, which refs exist and where they point, storage layout) is a vector of solver-forked choices; the
objects themselves are built concretely per path, so object ids are never symbolic."""
from __future__ import annotations

from dulwich.objects import Blob, Tree, Commit, Tag

WHO = b"V <v@v>"


def build_graph(eng, ncommits=3, ntrees=2, nblobs=2, tags=True, prefix="", light=True):
    """returns dict with lists of objects and the reference adjacency {id: [ids]}.
    light: the two trees are fixed (t0={b0}, t1={b1, sub->t0}: shared subtree and blob); otherwise their
    membership is symbolic too"""
    blobs = [Blob.from_string(b"blob %d\n" % i) for i in range(nblobs)]
    trees = []
    for t in range(ntrees):
        tr = Tree()
        for b in range(nblobs):
            if (b == t) if light else bool(eng.bool(f"{prefix}t{t}_has_b{b}")):
                tr.add(b"f%d" % b, 0o100644, blobs[b].id)
        if t > 0 and (True if light else bool(eng.bool(f"{prefix}t{t}_has_t0"))):
            tr.add(b"sub", 0o040000, trees[0].id)
        trees.append(tr)
    commits = []
    for c in range(ncommits):
        cm = Commit()
        cm.tree = trees[eng.choice(f"{prefix}c{c}_tree", ntrees)].id
        cm.parents = [commits[p].id for p in range(c) if eng.bool(f"{prefix}c{c}_p{p}")]
        cm.author = cm.committer = WHO
        cm.author_time = cm.commit_time = 1000 + c
        cm.author_timezone = cm.commit_timezone = 0
        cm.message = b"commit %d" % c
        commits.append(cm)
    tag_objs = []
    if tags:
        t1 = Tag()
        t1.name = b"t1"
        t1.tagger = WHO
        t1.tag_time = 5
        t1.tag_timezone = 0
        t1.message = b"tag one"
        tgt = eng.choice(f"{prefix}tag_target", ncommits + (0 if light else 1))
        target = commits[tgt] if tgt < ncommits else blobs[0]
        t1.object = (type(target), target.id)
        t2 = Tag()
        t2.name = b"t2"
        t2.tagger = WHO
        t2.tag_time = 6
        t2.tag_timezone = 0
        t2.message = b"tag of tag"
        t2.object = (Tag, t1.id)
        tag_objs = [t1, t2]
    objs = blobs + trees + commits + tag_objs
    adj = {}
    for o in objs:
        if isinstance(o, Commit):
            adj[o.id] = [o.tree] + list(o.parents)
        elif isinstance(o, Tree):
            adj[o.id] = [e.sha for e in o.iteritems()]
        elif isinstance(o, Tag):
            adj[o.id] = [o.object[1]]
        else:
            adj[o.id] = []
    return {"blobs": blobs, "trees": trees, "commits": commits, "tags": tag_objs, "objs": objs, "adj": adj,
            "by_id": {o.id: o for o in objs}}


def closure(adj, roots):
    seen, todo = set(), list(roots)
    while todo:
        x = todo.pop()
        if x in seen or x not in adj:
            if x not in adj:
                seen.add(x)
            continue
        seen.add(x)
        todo += adj[x]
    return seen
