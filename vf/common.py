"""Check registry, job pool, replay, known findings, evidence writer."""
from __future__ import annotations

import hashlib
import json
import multiprocessing as mp
import os
import subprocess
import sys
import time
from dataclasses import dataclass, field

VERIF = os.path.dirname(os.path.dirname(os.path.abspath(__file__)))
REPO = os.environ.get("VERIF_REPO", "/repo")
PY = os.path.join(VERIF, ".venv", "bin", "python")
EXIT_OK, EXIT_VIOLATION, EXIT_INCONCLUSIVE = 0, 1, 2


@dataclass
class KCheck:
    """one ksym (E2) harness"""
    name: str
    fn: object
    parts: list = field(default_factory=lambda: [{}])
    encoded: list = field(default_factory=list)     # real functions symbolically executed
    bounds: str = ""
    outside: str = ""
    assumptions: list = field(default_factory=list)
    max_decisions: int = 400
    conc_cap: int = 300
    time_budget: float = 900.0
    tiers: tuple = ("quick", "thorough")
    pins: list = field(default_factory=list)        # concrete input vectors for translator validation
    engine: str = "E2-ksym"
    kind: str = "ksym"
    width: int = 128                                # bit-width of symbolic ints (width obligations guard it)


def load_known():
    p = os.path.join(VERIF, "known_findings.json")
    if not os.path.exists(p):
        return []
    return json.load(open(p)).get("findings", [])


def known_ids_for(prop):
    return [f["id"] for f in load_known() if f["property"] == prop and f.get("status") == "known"]


# ---------------------------------------------------------------- ksym jobs

def _ksym_job(args):
    modname, cname, pidx, known, pin = args
    import importlib
    from vf.ksym import rewrite
    if not rewrite_installed():
        rewrite.install()
    mod = importlib.import_module(modname)
    chk = next(c for c in mod.checks("thorough") if c.name == cname)
    from vf.ksym.harness import explore
    from vf.ksym import core as _core
    _core.set_width(chk.width)
    params = chk.parts[pidx]
    try:
        r = explore(chk.fn, params=params, known=known, max_decisions=chk.max_decisions,
                    time_budget=chk.time_budget, pin=pin, conc_cap=chk.conc_cap)
    except BaseException as e:  # engine crash = inconclusive, never a pass
        import traceback
        r = {"paths": 0, "reached": 0, "proved": 0, "trivial": 0, "violations": [], "samples": [],
             "inconclusive": [f"engine error {type(e).__name__}: {e} {traceback.format_exc(limit=-3)}"],
             "queries": 0, "solver_s": 0.0, "wall_s": 0.0, "outcomes": {}, "width_obligations": 0}
    r["check"] = cname
    r["part"] = pidx
    r["params"] = params
    r["sources"] = {k: v[1][:16] for k, v in rewrite.SOURCES.items()}
    return r


def rewrite_installed():
    from vf.ksym import rewrite
    return any(isinstance(f, rewrite.KsFinder) for f in sys.meta_path)


def run_pool(fn, jobs, procs=16):
    if not jobs:
        return []
    ctx = mp.get_context("fork")
    with ctx.Pool(min(procs, len(jobs)), maxtasksperchild=1) as pool:
        return pool.map(fn, jobs, chunksize=1)


# ---------------------------------------------------------------- replay

def replay_native(modname, cname, pidx, inputs, timeout=300, env=None):
    """run the harness concretely in a fresh interpreter against the
    uninstrumented real code; returns the outcome dict"""
    payload = json.dumps({"module": modname, "check": cname, "part": pidx, "inputs": inputs})
    e = dict(os.environ)
    e["PYTHONPATH"] = VERIF
    e["PYTHONDONTWRITEBYTECODE"] = "1"
    e["PYTHONHASHSEED"] = "0"          # same set/dict iteration order as the exploring process
    if env:
        e.update(env)
    try:
        p = subprocess.run([PY, "-m", "vf.replay", "-"], input=payload, capture_output=True, text=True,
                           timeout=timeout, env=e, cwd=VERIF)
    except subprocess.TimeoutExpired:
        return {"outcome": "error", "detail": "replay timeout"}
    for line in reversed(p.stdout.strip().splitlines()):
        if line.startswith("{"):
            try:
                return json.loads(line)
            except ValueError:
                pass
    return {"outcome": "error", "detail": (p.stderr or p.stdout)[-800:]}


def save_replay(prop, cname, modname, pidx, inputs, detail):
    d = os.path.join(VERIF, "replays", prop)
    os.makedirs(d, exist_ok=True)
    blob = {"property": prop, "module": modname, "check": cname, "part": pidx, "inputs": inputs, "detail": detail}
    h = hashlib.sha1(json.dumps(blob, sort_keys=True).encode()).hexdigest()[:12]
    path = os.path.join(d, f"{cname}-{h}.json")
    with open(path, "w") as f:
        json.dump(blob, f, indent=1)
    return path


# ---------------------------------------------------------------- evidence

def write_evidence(prop, tier, seed, wall, coverage, assumptions, violations):
    # evidence under /verif/evidence only for runs against /repo itself (sweeps on a clone write elsewhere)
    d = os.path.join(VERIF, "evidence") if REPO == "/repo" else "/tmp/vf-evidence-alt"
    os.makedirs(d, exist_ok=True)
    ev = {
        "property_id": prop,
        "tier": tier,
        "seed": seed,
        "level": "other",
        "coverage": coverage,
        "assumptions": assumptions,
        "wall_s": round(wall, 2),
        "violations": violations,
    }
    tmp = os.path.join(d, f".{prop}.json.tmp")
    with open(tmp, "w") as f:
        json.dump(ev, f, indent=1, default=str)
    os.replace(tmp, os.path.join(d, f"{prop}.json"))
