"""E1: CrossHair runner.  Each XCheck is a contract-carrying harness function in
vf/harness/*.py that calls the real dulwich classes; partitions (env VF_PART)
run as parallel `crosshair check` processes.  A verdict counts only if it is
"Confirmed over all paths"; counterexamples are re-run natively in a fresh
interpreter before they are reported."""
from __future__ import annotations

import json
import os
import re
import subprocess
import sys
import tempfile
import time
from concurrent.futures import ThreadPoolExecutor
from dataclasses import dataclass, field

from .common import VERIF, PY

CROSSHAIR = os.path.join(VERIF, ".venv", "bin", "crosshair")


@dataclass
class XCheck:
    name: str
    module: str                 # e.g. "vf.harness.h_c13"
    func: str
    parts: list = field(default_factory=lambda: [{}])
    timeout: int = 120          # per_condition_timeout (CPU s of search per partition)
    encoded: list = field(default_factory=list)
    bounds: str = ""
    outside: str = ""
    assumptions: list = field(default_factory=list)
    tiers: tuple = ("quick", "thorough")
    unblock: bool = False       # harness touches the real file system
    engine: str = "E1-crosshair"
    kind: str = "xh"
    pins: list = field(default_factory=list)

    # ------------------------------------------------------------ run
    def _file(self):
        return os.path.join(VERIF, *self.module.split(".")) + ".py"

    def _one(self, idx, known):
        part = self.parts[idx]
        stats = tempfile.NamedTemporaryFile(prefix="vfstat", delete=False)
        stats.close()
        env = dict(os.environ)
        env.update({"VF_PART": json.dumps(part), "VF_KNOWN": ",".join(known), "VF_STATS": stats.name,
                    "PYTHONPATH": VERIF, "PYTHONDONTWRITEBYTECODE": "1", "PYTHONHASHSEED": "0"})
        cmd = [CROSSHAIR, "check", "--report_all", "--per_condition_timeout", str(self.timeout),
               "--per_path_timeout", str(max(30, self.timeout // 4))]
        if self.unblock:
            cmd += ["--unblock", "EVERYTHING"]
        cmd.append(f"{self.module}.{self.func}")
        t0 = time.time()
        try:
            p = subprocess.run(cmd, capture_output=True, text=True, env=env, cwd=VERIF,
                               timeout=self.timeout * 3 + 120)
            out = p.stdout + p.stderr
        except subprocess.TimeoutExpired as e:
            out = "TIMEOUT " + str(e)
        wall = time.time() - t0
        try:
            paths = os.path.getsize(stats.name)
        finally:
            os.unlink(stats.name)
        return idx, out, wall, paths

    def run(self, tier, known, procs, seed):
        info = {"paths": 0, "reached": 0, "obligations": 0, "queries": 0, "solver_s": 0.0, "cpu_s": 0.0,
                "confirmed": [], "inconclusive": [], "samples": [], "parts": len(self.parts), "verdicts": {}}
        with ThreadPoolExecutor(max_workers=procs) as ex:
            results = list(ex.map(lambda i: self._one(i, known), range(len(self.parts))))
        for idx, out, wall, paths in results:
            info["paths"] += paths
            info["reached"] += paths
            info["cpu_s"] = round(info["cpu_s"] + wall, 2)
            verdict = None
            for line in out.splitlines():
                if "Confirmed over all paths" in line:
                    verdict = "confirmed"
                elif ": error:" in line:
                    verdict = "counterexample"
                    args = self._parse_ce(line)
                    if args is None:
                        info["inconclusive"].append(f"[{idx}] unparsable counterexample: {line[-300:]}")
                        continue
                    rp = self.replay(args, idx)
                    if rp["outcome"] == "violation":
                        info["confirmed"].append({"label": rp.get("detail") or line.split("error:")[1][:200],
                                                  "inputs": args, "part": idx})
                    else:
                        info["inconclusive"].append(
                            f"[{idx}] counterexample did not reproduce natively ({rp}): {line[-300:]}")
                elif "Not confirmed" in line or "Unable to meet precondition" in line or "Unknown" in line:
                    if verdict is None:
                        verdict = "notconfirmed:" + line.split("info:")[-1].strip()[:80]
            if verdict is None:
                verdict = "noverdict"
                info["inconclusive"].append(f"[{idx}] no verdict from crosshair: {out[-400:]}")
            elif verdict.startswith("notconfirmed"):
                info["inconclusive"].append(f"[{idx}] {verdict} after {paths} paths / {wall:.0f}s (timeout {self.timeout}s)")
            elif verdict == "confirmed":
                info["obligations"] += 1
            info["verdicts"][verdict.split(":")[0]] = info["verdicts"].get(verdict.split(":")[0], 0) + 1
        info["samples"] = [{"partition": p} for p in self.parts[:2]]
        return info

    def _parse_ce(self, line):
        m = re.search(r"when calling \w+\((.*)\)(?: \(which (?:returns|raises) .*\))?\s*$", line)
        if not m:
            return None
        argstr = m.group(1)
        argstr = re.sub(r" \(which (returns|raises) .*$", "", argstr)
        try:
            return eval(f"dict({argstr})", {"__builtins__": {"dict": dict, "True": True, "False": False,
                                                            "None": None, "bytes": bytes, "float": float}})
        except Exception:
            # crosshair may have appended "(which returns ...)" inside; try trimming at last ')'
            try:
                cut = argstr.rsplit(") (which", 1)[0]
                return eval(f"dict({cut})", {"__builtins__": {"dict": dict}})
            except Exception:
                return None

    # ------------------------------------------------------------ replay
    def replay(self, inputs, part=0):
        payload = json.dumps({"module": self.module, "func": self.func, "inputs": _enc(inputs),
                              "part": self.parts[part] if isinstance(part, int) else part})
        env = dict(os.environ)
        env.update({"PYTHONPATH": VERIF, "PYTHONDONTWRITEBYTECODE": "1", "VF_KNOWN": ""})
        try:
            p = subprocess.run([PY, "-m", "vf.xh_replay"], input=payload, capture_output=True, text=True,
                               env=env, cwd=VERIF, timeout=300)
        except subprocess.TimeoutExpired:
            return {"outcome": "error", "detail": "replay timeout"}
        for line in reversed(p.stdout.strip().splitlines()):
            if line.startswith("{"):
                try:
                    return json.loads(line)
                except ValueError:
                    pass
        return {"outcome": "error", "detail": (p.stderr or p.stdout)[-600:]}

    def replay_here(self, inputs, part=0):
        return self.replay(inputs, part)


def _enc(v):
    if isinstance(v, bytes):
        return {"__bytes__": v.hex()}
    if isinstance(v, dict):
        return {k: _enc(x) for k, x in v.items()}
    if isinstance(v, (list, tuple)):
        return [_enc(x) for x in v]
    return v


def _dec(v):
    if isinstance(v, dict) and "__bytes__" in v:
        return bytes.fromhex(v["__bytes__"])
    if isinstance(v, dict):
        return {k: _dec(x) for k, x in v.items()}
    if isinstance(v, list):
        return [_dec(x) for x in v]
    return v
