"""Path exploration driver for ksym harnesses + the concrete twin engine used
for replay, known-finding witnesses and translator validation."""
from __future__ import annotations

import time
import traceback
import z3

from . import core
from .core import (Engine, SymBool, SymInt, Unsupported, Unwind, AssumeFailed, PathAbort, KsymControl,
                   bterm, set_engine)


class SymEngine(Engine):
    """Engine + property-level API (prove / known / observe)."""

    def __init__(self, known=(), pin=None, **kw):
        super().__init__(**kw)
        self.known_ids = set(known)
        self.pin = pin            # dict of concrete inputs: every symbolic input is equated to it
        self.path_violations = []
        self.path_proved = 0
        self.path_trivial = 0
        self.path_inconclusive = []
        self.observed = []
        self.reached = 0

    # pinned (translator validation) mode: inputs stay symbolic terms but are equated to constants
    def _reg(self, name, t):
        super()._reg(name, t)
        if self.pin is not None:
            kind, term = t
            if name not in self.pin:
                raise AssumeFailed()
            v = self.pin[name]
            if kind == "int":
                self.solver.add(term == v)
            elif kind == "bool":
                self.solver.add(term == bool(v))
            elif kind == "bytes":
                if len(v) != len(term):
                    raise AssumeFailed()
                for x, c in zip(term, v):
                    self.solver.add(x == c)
            if self.check() != z3.sat:
                raise AssumeFailed()

    def known(self, fid):
        return fid in self.known_ids

    def observe(self, label, value):
        self.observed.append((label, value))

    def witness(self):
        """one concrete input vector of the current path (model of the path condition)"""
        r = self.check()
        if r != z3.sat:
            raise Unsupported("no model for the current path")
        return self.model_inputs(self.model())

    def prove(self, cond, label="", inputs=None):
        self.reached += 1
        if cond is True:
            self.path_trivial += 1
            return True
        if inputs is not None and not isinstance(cond, (SymBool, SymInt)) and not cond:
            # a concrete disagreement observed on a specific witness of this path
            self.path_violations.append({"label": label, "inputs": inputs})
            raise PathAbort()
        if isinstance(cond, (SymBool, SymInt)):
            t = bterm(cond)
            r = self.check(z3.Not(t))
            if r == z3.unsat:
                self.path_proved += 1
                return True
            if r == z3.unknown:
                self.path_inconclusive.append(f"solver unknown on assertion {label!r}")
                return False
            m = self.model()
            self.path_violations.append({"label": label, "inputs": self.model_inputs(m)})
            # continue the path on the side where the assertion holds, if any
            if self.check(t) == z3.sat:
                self.solver.add(t)
                return False
            raise PathAbort()
        if not cond:
            r = self.check()
            if r == z3.sat:
                self.path_violations.append({"label": label, "inputs": self.model_inputs(self.model())})
            else:
                self.path_inconclusive.append("unknown path condition at failing assertion")
            raise PathAbort()
        self.path_trivial += 1
        return True

    def fail(self, label):
        return self.prove(False, label)


class ConcreteEngine:
    """Same API on plain Python values: used to replay counterexamples and
    known-finding witnesses against the *uninstrumented* real code."""

    mode = "concrete"

    def __init__(self, inputs):
        self.inputs = dict(inputs)
        self.violations = []
        self.observed = []
        self.reached = 0

    def _get(self, name):
        if name not in self.inputs:
            raise AssumeFailed()
        return self.inputs[name]

    def int(self, name, lo, hi):
        v = int(self._get(name))
        if not lo <= v <= hi:
            raise AssumeFailed()
        return v

    def byte(self, name):
        return self.int(name, 0, 255)

    def bool(self, name):
        return bool(self._get(name))

    def bytes(self, name, n):
        v = bytes(self._get(name))
        if len(v) != n:
            raise AssumeFailed()
        return v

    def choice(self, name, n):
        return self.int(name, 0, n - 1)

    def bytes_upto(self, name, nmax, nmin=0):
        n = self.choice(name + ".len", nmax - nmin + 1) + nmin
        return self.bytes(name, n)

    def assume(self, c):
        if not c:
            raise AssumeFailed()

    def known(self, fid):
        return False

    def observe(self, label, value):
        self.observed.append((label, value))

    def witness(self):
        return dict(self.inputs)

    def prove(self, cond, label="", inputs=None):
        self.reached += 1
        if not cond:
            self.violations.append({"label": label})
            raise PathAbort()
        return True

    def fail(self, label):
        return self.prove(False, label)


def run_concrete(fn, inputs, params):
    """returns dict(outcome=ok|violation|assume|error, detail=..., observed=[...])"""
    eng = ConcreteEngine(inputs)
    try:
        fn(eng, **params)
        out = "ok"
        detail = ""
    except AssumeFailed:
        out, detail = "assume", ""
    except PathAbort:
        out, detail = "violation", eng.violations[-1]["label"] if eng.violations else ""
    except KsymControl as e:
        out, detail = "error", f"{type(e).__name__}: {e}"
    except Exception as e:  # unexpected exception escaping the harness = violation of containment
        out, detail = "violation", f"unexpected {type(e).__name__}: {e}"
    return {"outcome": out, "detail": detail, "observed": [(l, _jsonable(v)) for l, v in eng.observed]}


def _jsonable(v):
    if isinstance(v, (bytes, bytearray)):
        return {"__bytes__": bytes(v).hex()}
    if isinstance(v, (list, tuple)):
        return [_jsonable(x) for x in v]
    if isinstance(v, dict):
        return {str(k): _jsonable(x) for k, x in v.items()}
    if isinstance(v, (int, str, bool)) or v is None:
        return v
    return repr(v)


def explore(fn, params=None, known=(), max_decisions=400, max_paths=200000, time_budget=None,
            solver_timeout_ms=60000, pin=None, conc_cap=300, keep_samples=3):
    """explore every path of harness `fn(eng, **params)`; returns a result dict"""
    params = params or {}
    eng = SymEngine(known=known, pin=pin, max_decisions=max_decisions, solver_timeout_ms=solver_timeout_ms,
                    conc_cap=conc_cap)
    set_engine(eng)
    t0 = time.time()
    res = {"paths": 0, "reached": 0, "proved": 0, "trivial": 0, "violations": [], "inconclusive": [],
           "assume_ended": 0, "samples": [], "outcomes": {}, "width_obligations": 0, "observed": []}
    eng.pending = [[]]
    try:
        while eng.pending:
            if res["paths"] >= max_paths:
                res["inconclusive"].append(f"path budget {max_paths} exhausted")
                break
            if time_budget and time.time() - t0 > time_budget:
                res["inconclusive"].append(f"time budget {time_budget}s exhausted after {res['paths']} paths")
                break
            prefix = eng.pending.pop()
            eng.decisions = list(prefix)
            eng.pos = 0
            eng.trace = []
            eng.obls = []
            eng.inputs = {}
            eng.path_violations = []
            eng.path_inconclusive = []
            eng.path_proved = eng.path_trivial = 0
            eng.reached = 0
            eng.observed = []
            eng.solver.push()
            outcome = "ok"
            try:
                try:
                    fn(eng, **params)
                except AssumeFailed:
                    outcome = "assume"
                    res["assume_ended"] += 1
                except PathAbort:
                    outcome = "abort"
                except Unsupported as e:
                    outcome = "unsupported"
                    res["inconclusive"].append(f"unsupported: {e}")
                except Unwind as e:
                    outcome = "unwind"
                    res["inconclusive"].append(f"unwinding assertion failed: {e}")
                except RecursionError as e:
                    outcome = "unsupported"
                    res["inconclusive"].append("recursion limit")
                except Exception as e:
                    outcome = "exception:" + type(e).__name__
                    r = eng.check()
                    tb = traceback.format_exc(limit=-4)
                    if r == z3.sat:
                        eng.path_violations.append({"label": f"unexpected {type(e).__name__}: {e}",
                                                    "inputs": eng.model_inputs(eng.model()),
                                                    "traceback": tb})
                    else:
                        res["inconclusive"].append(f"exception on path with non-sat pc: {e}")
                # width obligations of this path
                if eng.obls and outcome not in ("unsupported", "unwind"):
                    res["width_obligations"] += len(eng.obls)
                    r = eng.check(z3.Not(z3.And(*eng.obls)))
                    if r != z3.unsat:
                        res["inconclusive"].append(
                            f"width obligation not discharged ({r}): a value may exceed {core.W} bits")
                if eng.reached and outcome in ("ok", "abort") and len(res["samples"]) < keep_samples and pin is None:
                    if eng.check() == z3.sat:
                        res["samples"].append(eng.model_inputs(eng.model()))
                if pin is not None and eng.check() == z3.sat:
                    m = eng.model()
                    res["observed"] = [(l, _jsonable(eng.eval_value(m, v))) for l, v in eng.observed]
                    res["pinned_outcome"] = ("violation" if eng.path_violations else
                                             "assume" if outcome == "assume" else
                                             "ok" if outcome in ("ok",) else outcome)
            finally:
                eng.solver.pop()
            res["paths"] += 1
            res["outcomes"][outcome] = res["outcomes"].get(outcome, 0) + 1
            if eng.reached:
                res["reached"] += 1
            res["proved"] += eng.path_proved
            res["trivial"] += eng.path_trivial
            res["inconclusive"] += eng.path_inconclusive
            for v in eng.path_violations:
                if len(res["violations"]) < 20:
                    res["violations"].append(v)
                else:
                    res["violations_truncated"] = True
    finally:
        set_engine(None)
    res["queries"] = eng.n_checks
    res["solver_s"] = round(eng.t_solver, 3)
    res["wall_s"] = round(time.time() - t0, 3)
    res["unknowns"] = eng.unknowns
    # dedupe messages
    seen = []
    for m in res["inconclusive"]:
        if m not in seen:
            seen.append(m)
    res["inconclusive"] = seen[:20]
    return res
