"""ksym core: symbolic ints/bools over z3 bit-vectors, decision-prefix forking.

The real (instrumented) dulwich code is executed natively by CPython on proxy
objects.  Every symbolic branch (`__bool__`) asks the solver which sides are
feasible under the current path condition; one side is followed, the other is
queued and explored later by re-executing the harness from the start with the
recorded decision prefix.  Python ints are bit-vectors of width W with a
*width obligation* whenever interval analysis cannot show that the
mathematical result fits (obligations are discharged by the solver at the end
of each path; a failed obligation makes the run inconclusive, never a pass).
"""
from __future__ import annotations

import time
import z3

W = 128
MARK = "sym"  # placeholder text for symbolic values inside messages


class KsymControl(BaseException):
    """Base of engine control exceptions (BaseException: real code's
    `except Exception` must not swallow them)."""


class Unsupported(KsymControl):
    pass


class Unwind(KsymControl):
    """decision/loop budget exceeded on a feasible path = unwinding assertion failure"""


class AssumeFailed(KsymControl):
    """path ended by an unsatisfied eng.assume()"""


class PathAbort(KsymControl):
    pass


_ENGINE = None


def cur():
    if _ENGINE is None:
        raise RuntimeError("no active ksym engine")
    return _ENGINE


def set_engine(e):
    global _ENGINE
    _ENGINE = e


MINV = -(1 << (W - 1))
MAXV = (1 << (W - 1)) - 1


def set_width(w):
    """bit-width of symbolic ints for this process (call before any symbolic value exists)"""
    global W, MINV, MAXV
    W = w
    MINV = -(1 << (W - 1))
    MAXV = (1 << (W - 1)) - 1


def _fits(lo, hi):
    return lo >= MINV and hi <= MAXV


class SymBool:
    __slots__ = ("t",)

    def __init__(self, t):
        self.t = t

    def __bool__(self):
        return cur().branch(self.t)

    def __repr__(self):
        return MARK

    __str__ = __repr__

    def __format__(self, spec):
        return MARK

    def __hash__(self):
        return hash(bool(self))

    def __index__(self):
        return int(bool(self))

    def __int__(self):
        return int(bool(self))

    # logical helpers (non-forking)
    def __and__(self, o):
        if isinstance(o, (bool, SymBool)):
            return mk_bool(z3.And(self.t, bterm(o)))
        return as_symint(self) & o

    __rand__ = __and__

    def __or__(self, o):
        if isinstance(o, (bool, SymBool)):
            return mk_bool(z3.Or(self.t, bterm(o)))
        return as_symint(self) | o

    __ror__ = __or__

    def __invert__(self):
        return ~as_symint(self)

    def __eq__(self, o):
        if isinstance(o, (bool, SymBool)):
            return mk_bool(self.t == bterm(o))
        return as_symint(self) == o

    def __ne__(self, o):
        if isinstance(o, (bool, SymBool)):
            return mk_bool(self.t != bterm(o))
        return as_symint(self) != o

    def __add__(self, o):
        return as_symint(self) + o

    __radd__ = __add__


def bterm(x):
    if isinstance(x, SymBool):
        return x.t
    if isinstance(x, SymInt):
        return x.t != 0
    return z3.BoolVal(bool(x))


def mk_bool(t):
    t = z3.simplify(t)
    if z3.is_true(t):
        return True
    if z3.is_false(t):
        return False
    return SymBool(t)


def Not(x):
    if isinstance(x, (SymBool, SymInt)):
        return mk_bool(z3.Not(bterm(x)))
    return not x


def And(*xs):
    if any(isinstance(x, (SymBool, SymInt)) for x in xs):
        return mk_bool(z3.And(*[bterm(x) for x in xs]))
    return all(xs)


def Or(*xs):
    if any(isinstance(x, (SymBool, SymInt)) for x in xs):
        return mk_bool(z3.Or(*[bterm(x) for x in xs]))
    return any(xs)


def Implies(a, b):
    return Or(Not(a), b)


def Ite(c, a, b):
    """non-forking if-then-else over ints"""
    if not isinstance(c, (SymBool, SymInt)):
        return a if c else b
    ta, tb = bv(a), bv(b)
    la, ha = ival(a)
    lb, hb = ival(b)
    return SymInt(z3.If(bterm(c), ta, tb), min(la, lb), max(ha, hb))


def as_symint(b):
    if isinstance(b, SymBool):
        return SymInt(z3.If(b.t, z3.BitVecVal(1, W), z3.BitVecVal(0, W)), 0, 1)
    return b


def bv(x):
    if isinstance(x, SymInt):
        return x.t
    if isinstance(x, SymBool):
        return z3.If(x.t, z3.BitVecVal(1, W), z3.BitVecVal(0, W))
    if isinstance(x, int):
        if not (MINV <= x <= MAXV):
            raise Unsupported(f"constant {x} does not fit width {W}")
        return z3.BitVecVal(x, W)
    raise Unsupported(f"bv({type(x).__name__})")


def ival(x):
    if isinstance(x, SymInt):
        return x.lo, x.hi
    if isinstance(x, SymBool):
        return 0, 1
    return int(x), int(x)


def is_sym(x):
    return isinstance(x, (SymInt, SymBool))


def _num(o):
    return isinstance(o, (int, SymInt, SymBool)) and not isinstance(o, float)


class SymInt:
    """Python int as a signed bit-vector of width W with a conservative
    interval [lo, hi] of its mathematical value."""

    __slots__ = ("t", "lo", "hi")

    def __init__(self, t, lo=None, hi=None):
        self.t = t
        self.lo = MINV if lo is None else lo
        self.hi = MAXV if hi is None else hi

    # ---- plumbing
    def __repr__(self):
        return MARK

    __str__ = __repr__

    def __format__(self, spec):
        from .models import fmt_symint
        return fmt_symint(self, spec)

    def __bool__(self):
        return cur().branch(self.t != 0)

    def __index__(self):
        return cur().concretize(self)

    __int__ = __index__

    def __hash__(self):
        return hash(cur().concretize(self))

    def _res(self, t, lo, hi, exact_ok=None):
        """build result; if the interval does not fit, register the exact
        no-overflow condition `exact_ok` as a width obligation."""
        if not _fits(lo, hi):
            if exact_ok is None:
                raise Unsupported("possible width overflow without obligation")
            cur().obligation(exact_ok)
            lo, hi = max(lo, MINV), min(hi, MAXV)
        t = z3.simplify(t)
        if z3.is_bv_value(t):
            return t.as_signed_long()
        return SymInt(t, lo, hi)

    # ---- arithmetic
    def __add__(self, o):
        if not _num(o):
            return NotImplemented
        x, y = self.t, bv(o)
        lo, hi = ival(o)
        return self._res(x + y, self.lo + lo, self.hi + hi,
                         z3.And(z3.BVAddNoOverflow(x, y, True), z3.BVAddNoUnderflow(x, y)))

    __radd__ = __add__

    def __sub__(self, o):
        if not _num(o):
            return NotImplemented
        x, y = self.t, bv(o)
        lo, hi = ival(o)
        return self._res(x - y, self.lo - hi, self.hi - lo,
                         z3.And(z3.BVSubNoOverflow(x, y), z3.BVSubNoUnderflow(x, y, True)))

    def __rsub__(self, o):
        if not _num(o):
            return NotImplemented
        x, y = bv(o), self.t
        lo, hi = ival(o)
        return self._res(x - y, lo - self.hi, hi - self.lo,
                         z3.And(z3.BVSubNoOverflow(x, y), z3.BVSubNoUnderflow(x, y, True)))

    def __neg__(self):
        return self._res(-self.t, -self.hi, -self.lo, self.t != z3.BitVecVal(MINV, W))

    def __pos__(self):
        return self

    def __abs__(self):
        return Ite(self < 0, -self, self)

    def __mul__(self, o):
        if not _num(o):
            return NotImplemented
        x, y = self.t, bv(o)
        lo, hi = ival(o)
        c = [self.lo * lo, self.lo * hi, self.hi * lo, self.hi * hi]
        return self._res(x * y, min(c), max(c),
                         z3.And(z3.BVMulNoOverflow(x, y, True), z3.BVMulNoUnderflow(x, y)))

    __rmul__ = __mul__

    def _floordiv(self, a, b):
        # Python floor semantics on signed bit-vectors
        ta, tb = bv(a), bv(b)
        la, ha = ival(a)
        lb, hb = ival(b)
        if lb <= 0 <= hb:
            if cur().branch(tb == 0):
                raise ZeroDivisionError("integer division or modulo by zero")
        if isinstance(b, int) and b > 1 and not isinstance(a, int):
            # division by a constant as a definitional extension (bit-blasted dividers stall the solver):
            # fresh q, r with a == q*b + r, 0 <= r < b and q inside the interval implied by a, which makes
            # the pair unique and the product overflow-free.
            eng = cur()
            eng._fresh = getattr(eng, "_fresh", 0) + 1
            q = z3.BitVec(f"_q{eng._fresh}", W)
            r = z3.BitVec(f"_r{eng._fresh}", W)
            qlo, qhi = la // b, ha // b
            eng.solver.add(q >= qlo, q <= qhi, r >= 0, r < b, ta == q * tb + r)
            return q, r, (qlo, qhi), (0, min(max(abs(la), abs(ha)), b - 1))
        if la >= 0 and lb > 0:
            q = z3.UDiv(ta, tb)
            r = z3.URem(ta, tb)
            return q, r, (la // hb, ha // lb), (0, min(ha, hb - 1))
        q0 = ta / tb  # signed, truncating
        r0 = z3.SRem(ta, tb)
        adj = z3.And(r0 != 0, (r0 < 0) != (tb < 0))
        q = z3.If(adj, q0 - 1, q0)
        r = z3.If(adj, r0 + tb, r0)
        m = max(abs(la), abs(ha))
        mb = max(abs(lb), abs(hb))
        return q, r, (-m - 1, m + 1), (-mb, mb)

    def __floordiv__(self, o):
        if not _num(o):
            return NotImplemented
        q, r, (lo, hi), _ = self._floordiv(self, o)
        return self._res(q, lo, hi, z3.BoolVal(True))

    def __rfloordiv__(self, o):
        if not _num(o):
            return NotImplemented
        q, r, (lo, hi), _ = self._floordiv(o, self)
        return self._res(q, lo, hi, z3.BoolVal(True))

    def __mod__(self, o):
        if not _num(o):
            return NotImplemented
        q, r, _, (lo, hi) = self._floordiv(self, o)
        return self._res(r, lo, hi, z3.BoolVal(True))

    def __rmod__(self, o):
        if not _num(o):
            return NotImplemented
        q, r, _, (lo, hi) = self._floordiv(o, self)
        return self._res(r, lo, hi, z3.BoolVal(True))

    def __divmod__(self, o):
        return (self // o, self % o)

    def __rdivmod__(self, o):
        return (o // self, o % self)

    def __truediv__(self, o):
        if isinstance(o, int) and not isinstance(o, bool) and o > 0:
            return SymQuot(self, o)
        raise Unsupported("true division of a symbolic int by a non-constant (float)")

    def __rtruediv__(self, o):
        raise Unsupported("true division by a symbolic int (float)")

    def __pow__(self, o, mod=None):
        if isinstance(o, int) and 0 <= o <= 4 and mod is None:
            r = 1
            for _ in range(o):
                r = self * r
            return r
        raise Unsupported("pow on symbolic int")

    # ---- bit operations
    def __and__(self, o):
        if not _num(o):
            return NotImplemented
        lo, hi = ival(o)
        if lo >= 0 and self.lo >= 0:
            rl, rh = 0, min(hi, self.hi)
        elif lo >= 0:
            rl, rh = 0, hi
        elif self.lo >= 0:
            rl, rh = 0, self.hi
        else:
            rl, rh = MINV, MAXV
        return self._res(self.t & bv(o), rl, rh, z3.BoolVal(True))

    __rand__ = __and__

    @staticmethod
    def _orbound(a_lo, a_hi, b_lo, b_hi):
        if a_lo >= 0 and b_lo >= 0:
            n = max(a_hi.bit_length(), b_hi.bit_length())
            return 0, (1 << n) - 1
        return MINV, MAXV

    def __or__(self, o):
        if not _num(o):
            return NotImplemented
        lo, hi = ival(o)
        rl, rh = self._orbound(self.lo, self.hi, lo, hi)
        return self._res(self.t | bv(o), rl, rh, z3.BoolVal(True))

    __ror__ = __or__

    def __xor__(self, o):
        if not _num(o):
            return NotImplemented
        lo, hi = ival(o)
        rl, rh = self._orbound(self.lo, self.hi, lo, hi)
        return self._res(self.t ^ bv(o), rl, rh, z3.BoolVal(True))

    __rxor__ = __xor__

    def __invert__(self):
        return self._res(~self.t, -self.hi - 1, -self.lo - 1, z3.BoolVal(True))

    @staticmethod
    def _shl(a, b):
        ta, tb = bv(a), bv(b)
        la, ha = ival(a)
        lb, hb = ival(b)
        if lb < 0:
            if cur().branch(tb < 0):
                raise ValueError("negative shift count")
            lb = 0
        if hb > 4 * W:
            hb = 4 * W
        lo = min(la << lb, la << hb)
        hi = max(ha << lb, ha << hb)
        r = ta << tb
        ok = z3.And(z3.ULT(tb, W), (r >> tb) == ta)
        return r, lo, hi, ok

    def __lshift__(self, o):
        if not _num(o):
            return NotImplemented
        r, lo, hi, ok = self._shl(self, o)
        return self._res(r, lo, hi, ok)

    def __rlshift__(self, o):
        if not _num(o):
            return NotImplemented
        r, lo, hi, ok = self._shl(o, self)
        return self._res(r, lo, hi, ok)

    @staticmethod
    def _shr(a, b):
        ta, tb = bv(a), bv(b)
        la, ha = ival(a)
        lb, hb = ival(b)
        if lb < 0:
            if cur().branch(tb < 0):
                raise ValueError("negative shift count")
            lb = 0
        # arithmetic shift; a shift count >= W yields 0 / -1 like Python
        tbc = z3.If(z3.UGE(tb, W), z3.BitVecVal(W - 1, W), tb)
        r = ta >> tbc
        lo = min(la >> lb, la >> hb) if hb < 10 * W else min(la >> lb, -1 if la < 0 else 0)
        hi = max(ha >> lb, ha >> hb) if hb < 10 * W else max(ha >> lb, 0)
        return r, lo, hi

    def __rshift__(self, o):
        if not _num(o):
            return NotImplemented
        r, lo, hi = self._shr(self, o)
        return self._res(r, lo, hi, z3.BoolVal(True))

    def __rrshift__(self, o):
        if not _num(o):
            return NotImplemented
        r, lo, hi = self._shr(o, self)
        return self._res(r, lo, hi, z3.BoolVal(True))

    # ---- comparisons (never fork; forking happens in __bool__)
    def _cmp(self, o, f):
        if not _num(o):
            return NotImplemented
        return mk_bool(f(self.t, bv(o)))

    def __eq__(self, o):
        if not _num(o):
            return False if o is None or isinstance(o, (bytes, str, tuple, list)) else NotImplemented
        lo, hi = ival(o)
        if self.hi < lo or self.lo > hi:
            return False
        return mk_bool(self.t == bv(o))

    def __ne__(self, o):
        if not _num(o):
            return True if o is None or isinstance(o, (bytes, str, tuple, list)) else NotImplemented
        lo, hi = ival(o)
        if self.hi < lo or self.lo > hi:
            return True
        return mk_bool(self.t != bv(o))

    def _iv(self, o):
        return ival(o) if _num(o) else (None, None)

    def __lt__(self, o):
        lo, hi = self._iv(o)
        if lo is not None:
            if self.hi < lo:
                return True
            if self.lo >= hi:
                return False
        return self._cmp(o, lambda a, b: a < b)

    def __le__(self, o):
        lo, hi = self._iv(o)
        if lo is not None:
            if self.hi <= lo:
                return True
            if self.lo > hi:
                return False
        return self._cmp(o, lambda a, b: a <= b)

    def __gt__(self, o):
        lo, hi = self._iv(o)
        if lo is not None:
            if self.lo > hi:
                return True
            if self.hi <= lo:
                return False
        return self._cmp(o, lambda a, b: a > b)

    def __ge__(self, o):
        lo, hi = self._iv(o)
        if lo is not None:
            if self.lo >= hi:
                return True
            if self.hi < lo:
                return False
        return self._cmp(o, lambda a, b: a >= b)

    # ---- int methods used by the code base
    def bit_length(self):
        # fork-free ite chain is expensive for W=128; fork on magnitude class instead
        v = abs(self)
        n = 0
        while v >= (1 << n):
            n += 1
            if n > W:
                raise Unsupported("bit_length")
        return n

    def bit_count(self):
        v = abs(self)
        n = max(abs(self.lo), abs(self.hi)).bit_length()
        r = 0
        for i in range(n):
            r = r + ((v >> i) & 1)
        return r

    def to_bytes(self, length=1, byteorder="big", *, signed=False):
        from .sbytes import SymBytes
        length = int(length)
        if signed:
            raise Unsupported("to_bytes signed")
        if self < 0 or self >= (1 << (8 * length)):
            raise OverflowError("int too big to convert")
        out = [(self >> (8 * i)) & 0xFF for i in range(length)]
        if byteorder == "big":
            out.reverse()
        return SymBytes(out)


class SymQuot:
    """The float `a / b` for symbolic int a and constant int b > 0, kept as an exact rational.
    Sound for what the code base does with such floats (int(), %d formatting, % k) provided
    |a| < 2^53, which is registered as an obligation: for |a| < 2^53 the correctly rounded double
    a/b never reaches the next integer (the distance of a/b to it is >= 1/b > |a/b| * 2^-53), so
    truncation of the double equals truncation of the exact quotient."""

    def __init__(self, num, den):
        self.num = num
        self.den = den
        if isinstance(num, SymInt) and W > 54:
            cur().obligation(z3.And(num.t > -(1 << 53), num.t < (1 << 53)))

    def trunc(self):
        n = self.num
        return Ite(n < 0, -((-n) // self.den), n // self.den)

    __int__ = trunc
    __trunc__ = trunc

    def __mod__(self, k):
        if isinstance(k, int) and k > 0:
            return SymQuot(self.num % (self.den * k), self.den)
        raise Unsupported("float modulo")

    def __truediv__(self, k):
        if isinstance(k, int) and k > 0:
            return SymQuot(self.num, self.den * k)
        raise Unsupported("float division")

    def __repr__(self):
        return MARK

    def __format__(self, spec):
        return MARK

    def __bool__(self):
        return bool(self.num != 0)

    def _cmp(self, o, f):
        if isinstance(o, (int, SymInt)):
            return f(self.num, o * self.den)
        raise Unsupported("float comparison")

    def __lt__(self, o):
        return self._cmp(o, lambda a, b: a < b)

    def __le__(self, o):
        return self._cmp(o, lambda a, b: a <= b)

    def __gt__(self, o):
        return self._cmp(o, lambda a, b: a > b)

    def __ge__(self, o):
        return self._cmp(o, lambda a, b: a >= b)

    def __eq__(self, o):
        return self._cmp(o, lambda a, b: a == b)

    __hash__ = None


class Engine:
    """Decision-prefix-replay path explorer over one incremental z3 solver."""

    def __init__(self, max_decisions=400, solver_timeout_ms=60000, conc_cap=300):
        self.solver = z3.Solver()
        self.fast_ms = 3000
        self.slow_ms = solver_timeout_ms
        self.retries = 0
        self._model_src = self.solver
        self.max_decisions = max_decisions
        self.conc_cap = conc_cap
        self.n_checks = 0
        self.t_solver = 0.0
        self.pending = []
        self.decisions = []
        self.pos = 0
        self.trace = []
        self.obls = []
        self.inputs = {}     # name -> z3 term / concrete, in creation order (this path)
        self.unknowns = 0
        self.mode = "symbolic"

    # -- solver
    def check(self, *assumps):
        """incremental solver first (fast, weak preprocessing); on `unknown` the same query is re-decided by
        a fresh non-incremental solver, whose full QF_BV pipeline (solve-eqs before bit-blasting) settles the
        definitional equalities the models introduce"""
        t0 = time.time()
        self.solver.set("timeout", self.fast_ms)
        r = self.solver.check(*assumps)
        self._model_src = self.solver
        if r == z3.unknown:
            self.retries += 1
            self.fast_ms = 300      # this exploration has hard queries: stop waiting long for the weak solver
            s2 = z3.Solver()
            s2.set("timeout", self.slow_ms)
            s2.add(self.solver.assertions())
            s2.add(*assumps)
            r = s2.check()
            self._model_src = s2
        self.t_solver += time.time() - t0
        self.n_checks += 1
        if r == z3.unknown:
            self.unknowns += 1
        return r

    def model(self):
        return self._model_src.model()

    def add(self, c):
        self.solver.add(c)

    def obligation(self, t):
        t = z3.simplify(t)
        if not z3.is_true(t):
            self.obls.append(t)

    # -- forking
    def branch(self, cond, payload=None):
        cond = z3.simplify(cond)
        if z3.is_true(cond):
            return True
        if z3.is_false(cond):
            return False
        if self.pos < len(self.decisions):
            d = self.decisions[self.pos][0]
            self.pos += 1
            self.trace.append((d, payload))
            self.solver.add(cond if d else z3.Not(cond))
            return d
        if len(self.trace) >= self.max_decisions:
            raise Unwind(f"more than {self.max_decisions} symbolic decisions on one path")
        rt = self.check(cond)
        rf = self.check(z3.Not(cond))
        if rt == z3.unknown or rf == z3.unknown:
            raise Unsupported("solver returned unknown on a branch feasibility query")
        can_t, can_f = rt == z3.sat, rf == z3.sat
        if can_t and can_f:
            self.pending.append(self.trace + [(False, payload)])
            d = True
        elif can_t:
            d = True
        elif can_f:
            d = False
        else:
            raise Unsupported("infeasible path condition reached")
        self.pos += 1
        self.decisions.append((d, payload))
        self.trace.append((d, payload))
        self.solver.add(cond if d else z3.Not(cond))
        return d

    def concretize(self, v):
        """fork over the feasible values of a symbolic int (sound enumeration)"""
        if isinstance(v, SymBool):
            return int(bool(v))
        if not isinstance(v, SymInt):
            return v
        n = 0
        while True:
            if self.pos < len(self.decisions):
                m = self.decisions[self.pos][1]
            else:
                r = self.check()
                if r != z3.sat:
                    raise Unsupported("concretize: path condition not sat")
                m = self.model().eval(v.t, model_completion=True).as_signed_long()
            if self.branch(v.t == m, payload=m):
                return m
            n += 1
            if n > self.conc_cap:
                raise Unsupported(f"concretize: more than {self.conc_cap} values")

    # -- inputs
    def _reg(self, name, t):
        if name in self.inputs:
            raise RuntimeError(f"duplicate input {name}")
        self.inputs[name] = t

    def int(self, name, lo, hi):
        v = z3.BitVec(name, W)
        self.solver.add(v >= lo, v <= hi)
        self._reg(name, ("int", v))
        return SymInt(v, lo, hi)

    def byte(self, name):
        return self.int(name, 0, 255)

    def bool(self, name):
        v = z3.Bool(name)
        self._reg(name, ("bool", v))
        return SymBool(v)

    def bytes(self, name, n):
        from .sbytes import SymBytes
        vs = []
        for i in range(n):
            v = z3.BitVec(f"{name}[{i}]", W)
            self.solver.add(z3.ULE(v, 255))
            vs.append(v)
        self._reg(name, ("bytes", vs))
        return SymBytes([SymInt(v, 0, 255) for v in vs])

    def choice(self, name, n):
        """symbolic index in range(n), concretised immediately (forks n ways)"""
        v = self.int(name, 0, n - 1)
        return self.concretize(v)

    def bytes_upto(self, name, nmax, nmin=0):
        n = self.choice(name + ".len", nmax - nmin + 1) + nmin
        return self.bytes(name, n)

    def assume(self, c):
        if isinstance(c, (SymBool, SymInt)):
            t = bterm(c)
            r = self.check(t)
            if r == z3.unsat:
                raise AssumeFailed()
            if r == z3.unknown:
                raise Unsupported("unknown in assume")
            self.solver.add(t)
        elif not c:
            raise AssumeFailed()

    def model_inputs(self, model):
        out = {}
        for name, (kind, t) in self.inputs.items():
            if kind == "int":
                out[name] = model.eval(t, model_completion=True).as_signed_long()
            elif kind == "bool":
                out[name] = z3.is_true(model.eval(t, model_completion=True))
            elif kind == "bytes":
                out[name] = [model.eval(x, model_completion=True).as_long() & 0xFF for x in t]
        return out

    def eval_value(self, model, v):
        """concrete value of a proxy-containing python value under a model"""
        from .sbytes import SymBytes
        if isinstance(v, SymInt):
            return model.eval(v.t, model_completion=True).as_signed_long()
        if isinstance(v, SymBool):
            return z3.is_true(model.eval(v.t, model_completion=True))
        if isinstance(v, SymBytes):
            return bytes(self.eval_value(model, e) & 0xFF for e in v.elems)
        if isinstance(v, (list, tuple)):
            return type(v)(self.eval_value(model, e) for e in v) if type(v) in (list, tuple) else [self.eval_value(model, e) for e in v]
        if isinstance(v, dict):
            return {self.eval_value(model, k): self.eval_value(model, x) for k, x in v.items()}
        return v
