"""Symbolic byte strings: concrete length per path, elements int | SymInt(0..255).

The method models are deliberately naive reference implementations written in
plain Python over the element proxies: every comparison that the real C
implementation would make becomes a (possibly forking) comparison of
elements.  They are differential-tested against CPython's bytes in
vf/ksym/selftest.py.
"""
from __future__ import annotations

import z3

from .core import (SymInt, SymBool, Unsupported, cur, mk_bool, bv, is_sym, Ite, And, Or, Not)

_WS = (9, 10, 11, 12, 13, 32)


def elems_of(x):
    """element list of any bytes-like (real or symbolic), else None"""
    if isinstance(x, SymBytes):
        return x.elems
    if isinstance(x, (bytes, bytearray, memoryview)):
        return list(bytes(x))
    return None


def _eqelem(a, b):
    """non-forking equality of two elements"""
    if isinstance(a, int) and isinstance(b, int):
        return a == b
    return mk_bool(bv(a) == bv(b))


class SymBytes:
    mutable = False

    def __init__(self, elems=()):
        self.elems = list(elems)

    # ---- construction helpers
    @classmethod
    def of(cls, x):
        e = elems_of(x)
        if e is None:
            raise TypeError(f"a bytes-like object is required, not '{type(x).__name__}'")
        return cls(e)

    def _new(self, elems):
        return SymBytes(elems)

    def is_concrete(self):
        return all(isinstance(e, int) for e in self.elems)

    def concrete(self):
        return bytes(self.elems)

    def try_unwrap(self):
        if self.is_concrete():
            return bytearray(self.elems) if self.mutable else bytes(self.elems)
        return self

    # ---- plumbing
    def __repr__(self):
        if self.is_concrete():
            return repr(self.try_unwrap())
        return "b'sym'"

    __str__ = __repr__

    def __format__(self, spec):
        return repr(self)

    def __len__(self):
        return len(self.elems)

    def __bool__(self):
        return len(self.elems) > 0

    def __iter__(self):
        return iter(list(self.elems))

    def __hash__(self):
        if self.mutable:
            raise TypeError("unhashable type: 'bytearray'")
        return hash(bytes(cur().concretize(e) for e in self.elems))

    def __getitem__(self, i):
        if isinstance(i, slice):
            return self._new(self.elems[i])
        try:
            return self.elems[i]
        except IndexError:
            raise IndexError("index out of range") from None

    def __contains__(self, x):
        if isinstance(x, (int, SymInt)):
            for e in self.elems:
                if _eqelem(e, x):
                    return True
            return False
        return self.find(x) != -1

    def __add__(self, o):
        e = elems_of(o)
        if e is None:
            return NotImplemented
        return self._new(self.elems + e)

    def __radd__(self, o):
        e = elems_of(o)
        if e is None:
            return NotImplemented
        if isinstance(o, bytearray):
            return SymByteArray(e + self.elems)
        return SymBytes(e + self.elems)

    def __mul__(self, n):
        return self._new(self.elems * int(n))

    __rmul__ = __mul__

    def __mod__(self, args):
        if self.is_concrete():
            from .models import ks_mod
            return ks_mod(self.concrete(), args)
        raise Unsupported("symbolic format string")

    # ---- comparisons (non forking)
    def _eq(self, o):
        e = elems_of(o)
        if e is None:
            return NotImplemented
        if len(e) != len(self.elems):
            return False
        conds = []
        for a, b in zip(self.elems, e):
            c = _eqelem(a, b)
            if c is False:
                return False
            if c is not True:
                conds.append(c.t)
        if not conds:
            return True
        return mk_bool(z3.And(*conds))

    def __eq__(self, o):
        return self._eq(o)

    def __ne__(self, o):
        r = self._eq(o)
        if r is NotImplemented:
            return r
        return Not(r)

    def _lex(self, o, strict_less, or_equal):
        e = elems_of(o)
        if e is None:
            return NotImplemented
        a, b = self.elems, e
        n = min(len(a), len(b))
        # result if all first n equal
        if len(a) == len(b):
            tail = or_equal
        else:
            tail = (len(a) < len(b)) if strict_less else (len(a) > len(b))
        res = z3.BoolVal(bool(tail))
        for i in range(n - 1, -1, -1):
            x, y = bv(a[i]), bv(b[i])
            lt = x < y if strict_less else x > y
            res = z3.If(x == y, res, lt)
        return mk_bool(res)

    def __lt__(self, o):
        return self._lex(o, True, False)

    def __le__(self, o):
        return self._lex(o, True, True)

    def __gt__(self, o):
        return self._lex(o, False, False)

    def __ge__(self, o):
        return self._lex(o, False, True)

    # ---- searching (forking, like the C loops they stand for)
    def _norm(self, start, end):
        n = len(self.elems)
        s = 0 if start is None else int(start)
        e = n if end is None else int(end)
        if s < 0:
            s = max(0, s + n)
        if e < 0:
            e = max(0, e + n)
        return min(s, n), min(e, n)

    def _match_at(self, i, sub):
        for j, c in enumerate(sub):
            if not _eqelem(self.elems[i + j], c):
                return False
        return True

    def _sub(self, sub):
        if isinstance(sub, list):
            return sub
        if isinstance(sub, (int, SymInt)):
            return [sub]
        e = elems_of(sub)
        if e is None:
            raise TypeError("argument should be integer or bytes-like object")
        return e

    def find(self, sub, start=None, end=None):
        sub = self._sub(sub)
        s, e = self._norm(start, end)
        for i in range(s, e - len(sub) + 1):
            if self._match_at(i, sub):
                return i
        return -1

    def rfind(self, sub, start=None, end=None):
        sub = self._sub(sub)
        s, e = self._norm(start, end)
        for i in range(e - len(sub), s - 1, -1):
            if self._match_at(i, sub):
                return i
        return -1

    def index(self, sub, start=None, end=None):
        r = self.find(sub, start, end)
        if r == -1:
            raise ValueError("subsection not found")
        return r

    def rindex(self, sub, start=None, end=None):
        r = self.rfind(sub, start, end)
        if r == -1:
            raise ValueError("subsection not found")
        return r

    def count(self, sub, start=None, end=None):
        sub = self._sub(sub)
        s, e = self._norm(start, end)
        n = 0
        i = s
        if not sub:
            return e - s + 1
        while i <= e - len(sub):
            if self._match_at(i, sub):
                n += 1
                i += len(sub)
            else:
                i += 1
        return n

    def startswith(self, prefix, start=None, end=None):
        if isinstance(prefix, tuple):
            return Or(*[self.startswith(p, start, end) for p in prefix])
        p = self._sub(prefix)
        s, e = self._norm(start, end)
        if e - s < len(p):
            return False
        return self._new(self.elems[s:s + len(p)])._eq(SymBytes(p))

    def endswith(self, suffix, start=None, end=None):
        if isinstance(suffix, tuple):
            return Or(*[self.endswith(p, start, end) for p in suffix])
        p = self._sub(suffix)
        s, e = self._norm(start, end)
        if e - s < len(p):
            return False
        return self._new(self.elems[e - len(p):e])._eq(SymBytes(p))

    # ---- splitting
    def split(self, sep=None, maxsplit=-1):
        maxsplit = int(maxsplit)
        out = []
        if sep is None:
            i, n = 0, len(self.elems)
            while True:
                while i < n and self._isin(self.elems[i], _WS):
                    i += 1
                if i >= n:
                    break
                if maxsplit >= 0 and len(out) >= maxsplit:
                    j = n
                    while j > i and self._isin(self.elems[j - 1], _WS):
                        j -= 1
                    out.append(self._new(self.elems[i:j]))
                    break
                j = i
                while j < n and not self._isin(self.elems[j], _WS):
                    j += 1
                out.append(self._new(self.elems[i:j]))
                i = j
            return out
        sep = self._sub(sep)
        if not sep:
            raise ValueError("empty separator")
        i = 0
        while maxsplit < 0 or len(out) < maxsplit:
            j = self.find(sep, i)
            if j == -1:
                break
            out.append(self._new(self.elems[i:j]))
            i = j + len(sep)
        out.append(self._new(self.elems[i:]))
        return out

    def rsplit(self, sep=None, maxsplit=-1):
        maxsplit = int(maxsplit)
        if sep is None:
            if maxsplit < 0:
                return self.split()
            raise Unsupported("rsplit(None, maxsplit)")
        sep = self._sub(sep)
        if not sep:
            raise ValueError("empty separator")
        out = []
        e = len(self.elems)
        while maxsplit < 0 or len(out) < maxsplit:
            j = self.rfind(sep, 0, e)
            if j == -1:
                break
            out.append(self._new(self.elems[j + len(sep):e]))
            e = j
        out.append(self._new(self.elems[:e]))
        out.reverse()
        return out

    def partition(self, sep):
        sep = self._sub(sep)
        i = self.find(sep)
        if i == -1:
            return (self._new(self.elems), self._new([]), self._new([]))
        return (self._new(self.elems[:i]), self._new(sep), self._new(self.elems[i + len(sep):]))

    def rpartition(self, sep):
        sep = self._sub(sep)
        i = self.rfind(sep)
        if i == -1:
            return (self._new([]), self._new([]), self._new(self.elems))
        return (self._new(self.elems[:i]), self._new(sep), self._new(self.elems[i + len(sep):]))

    def splitlines(self, keepends=False):
        out = []
        i, n = 0, len(self.elems)
        while i < n:
            j = i
            while j < n and not self._isin(self.elems[j], (10, 13)):
                j += 1
            eol = j
            if j < n:
                if _eqelem(self.elems[j], 13) and j + 1 < n and _eqelem(self.elems[j + 1], 10):
                    j += 2
                else:
                    j += 1
            out.append(self._new(self.elems[i:j if keepends else eol]))
            i = j
        return out

    @staticmethod
    def _isin(e, values):
        for v in values:
            if _eqelem(e, v):
                return True
        return False

    def _stripset(self, chars):
        if chars is None:
            return _WS
        return self._sub(chars)

    def lstrip(self, chars=None):
        cs = self._stripset(chars)
        i = 0
        while i < len(self.elems) and self._isin(self.elems[i], cs):
            i += 1
        return self._new(self.elems[i:])

    def rstrip(self, chars=None):
        cs = self._stripset(chars)
        j = len(self.elems)
        while j > 0 and self._isin(self.elems[j - 1], cs):
            j -= 1
        return self._new(self.elems[:j])

    def strip(self, chars=None):
        return self.lstrip(chars).rstrip(chars)

    def removeprefix(self, p):
        p = self._sub(p)
        if self.startswith(p):
            return self._new(self.elems[len(p):])
        return self._new(self.elems)

    def removesuffix(self, p):
        p = self._sub(p)
        if p and self.endswith(p):
            return self._new(self.elems[:-len(p)])
        return self._new(self.elems)

    def replace(self, old, new, count=-1):
        old, new = self._sub(old), self._sub(new)
        count = int(count)
        if not old:
            raise Unsupported("replace with empty pattern")
        out = []
        i = 0
        n = 0
        while count < 0 or n < count:
            j = self.find(old, i)
            if j == -1:
                break
            out += self.elems[i:j] + new
            i = j + len(old)
            n += 1
        out += self.elems[i:]
        return self._new(out)

    def join(self, it):
        out = []
        first = True
        for x in it:
            e = elems_of(x)
            if e is None:
                raise TypeError("sequence item: expected a bytes-like object")
            if not first:
                out += self.elems
            out += e
            first = False
        return self._new(out)

    # ---- per-element maps (non forking)
    def _map(self, lo, hi, delta):
        out = []
        for e in self.elems:
            if isinstance(e, int):
                out.append(e + delta if lo <= e <= hi else e)
            else:
                r = Ite(And(e >= lo, e <= hi), e + delta, e)
                out.append(r)
        return self._new(out)

    def lower(self):
        return self._map(65, 90, 32)

    def upper(self):
        return self._map(97, 122, -32)

    def _all(self, pred):
        if not self.elems:
            return False
        for e in self.elems:
            if not pred(e):
                return False
        return True

    def isdigit(self):
        return self._all(lambda e: bool(And(e >= 48, e <= 57)))

    def isalpha(self):
        return self._all(lambda e: bool(Or(And(e >= 65, e <= 90), And(e >= 97, e <= 122))))

    def isalnum(self):
        return self._all(lambda e: bool(Or(And(e >= 48, e <= 57), And(e >= 65, e <= 90), And(e >= 97, e <= 122))))

    def isspace(self):
        return self._all(lambda e: self._isin(e, _WS))

    def isascii(self):
        for e in self.elems:
            if not (e < 128):
                return False
        return True

    def hex(self):
        raise Unsupported("hex() of symbolic bytes yields str")

    def decode(self, encoding="utf-8", errors="strict"):
        if self.is_concrete():
            return self.concrete().decode(encoding, errors)
        from .models import SymStr
        return SymStr()  # opaque: may only be formatted into messages

    def tobytes(self):
        return SymBytes(self.elems)

    def copy(self):
        return self._new(self.elems)


class SymByteArray(SymBytes):
    mutable = True

    def _new(self, elems):
        return SymByteArray(elems)

    def __hash__(self):
        raise TypeError("unhashable type: 'bytearray'")

    def _chk(self, v):
        if isinstance(v, int):
            if not 0 <= v <= 255:
                raise ValueError("byte must be in range(0, 256)")
            return v
        if isinstance(v, SymBool):
            from .core import as_symint
            return as_symint(v)
        if isinstance(v, SymInt):
            if v.lo >= 0 and v.hi <= 255:
                return v
            if Or(v < 0, v > 255):
                raise ValueError("byte must be in range(0, 256)")
            return SymInt(v.t, 0, 255)
        raise TypeError("an integer is required")

    def append(self, v):
        self.elems.append(self._chk(v))

    def extend(self, it):
        e = elems_of(it)
        if e is None:
            e = [self._chk(x) for x in it]
        self.elems.extend(e)

    def insert(self, i, v):
        self.elems.insert(int(i), self._chk(v))

    def pop(self, i=-1):
        return self.elems.pop(int(i))

    def clear(self):
        self.elems.clear()

    def reverse(self):
        self.elems.reverse()

    def __iadd__(self, o):
        e = elems_of(o)
        if e is None:
            raise TypeError(f"can't concat {type(o).__name__} to bytearray")
        self.elems.extend(e)
        return self

    def __setitem__(self, i, v):
        if isinstance(i, slice):
            e = elems_of(v)
            if e is None:
                e = [self._chk(x) for x in v]
            self.elems[i] = e
        else:
            self.elems[i] = self._chk(v)

    def __delitem__(self, i):
        del self.elems[i]


class SymBytesIO:
    """io.BytesIO over symbolic content (created for every BytesIO() in
    instrumented code so that later symbolic writes are possible)."""

    def __init__(self, initial=b""):
        e = elems_of(initial)
        if e is None:
            raise TypeError("a bytes-like object is required")
        self.buf = list(e)
        self.pos = 0
        self.closed = False

    def _chk(self):
        if self.closed:
            raise ValueError("I/O operation on closed file.")

    def read(self, n=-1):
        self._chk()
        if n is None:
            n = -1
        n = int(n)
        if n < 0:
            n = len(self.buf)
        r = self.buf[self.pos:self.pos + n]
        self.pos = min(len(self.buf), self.pos + n) if self.pos <= len(self.buf) else self.pos
        return _out(r)

    read1 = read

    def readline(self, size=-1):
        self._chk()
        i = self.pos
        n = len(self.buf)
        lim = n if size is None or int(size) < 0 else min(n, i + int(size))
        j = i
        while j < lim:
            e = self.buf[j]
            j += 1
            if _eqelem(e, 10):
                break
        self.pos = j
        return _out(self.buf[i:j])

    def readlines(self):
        out = []
        while True:
            l = self.readline()
            if not l:
                return out
            out.append(l)

    def __iter__(self):
        return self

    def __next__(self):
        l = self.readline()
        if not l:
            raise StopIteration
        return l

    def write(self, b):
        self._chk()
        e = elems_of(b)
        if e is None:
            raise TypeError(f"a bytes-like object is required, not '{type(b).__name__}'")
        if self.pos > len(self.buf):
            self.buf += [0] * (self.pos - len(self.buf))
        self.buf[self.pos:self.pos + len(e)] = e
        self.pos += len(e)
        return len(e)

    def writelines(self, lines):
        for l in lines:
            self.write(l)

    def seek(self, pos, whence=0):
        self._chk()
        pos = int(pos)
        if whence == 0:
            if pos < 0:
                raise ValueError("negative seek value")
            self.pos = pos
        elif whence == 1:
            self.pos = max(0, self.pos + pos)
        elif whence == 2:
            self.pos = max(0, len(self.buf) + pos)
        else:
            raise ValueError("invalid whence")
        return self.pos

    def tell(self):
        self._chk()
        return self.pos

    def getvalue(self):
        return _out(self.buf)

    def getbuffer(self):
        return SymByteArray(self.buf)

    def truncate(self, size=None):
        size = self.pos if size is None else int(size)
        del self.buf[size:]
        return size

    def flush(self):
        pass

    def close(self):
        self.closed = True

    def readable(self):
        return True

    def writable(self):
        return True

    def seekable(self):
        return True

    def fileno(self):
        import io
        raise io.UnsupportedOperation("fileno")

    def __enter__(self):
        return self

    def __exit__(self, *a):
        self.close()


def _out(elems):
    """bytes value for a list of elements: real bytes when fully concrete"""
    if all(isinstance(e, int) for e in elems):
        return bytes(elems)
    return SymBytes(elems)
