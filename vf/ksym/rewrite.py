"""Source-to-source instrumentation of the real dulwich modules.

An import hook recompiles every `dulwich.*` module from /repo's *current
source* on import, routing calls, subscripts, `in` tests and `%` formatting
through the interposers in models.py so that C-level builtins are replaced by
models when (and only when) a symbolic value reaches them.  Everything else —
control flow, classes, generators, exceptions — is the unmodified code running
natively on proxy objects.
"""
from __future__ import annotations

import ast
import hashlib
import importlib.abc
import importlib.machinery
import sys

_SKIP_CALL_NAMES = {"super", "locals", "globals", "vars", "eval", "exec", "dir", "__import__"}

SOURCES = {}  # module name -> (path, sha256 of source)  (evidence: what was encoded)


class Rewriter(ast.NodeTransformer):
    def _name(self, n, node):
        return ast.copy_location(ast.Name(id=n, ctx=ast.Load()), node)

    # do not descend into annotations
    def visit_arg(self, node):
        return node

    def visit_AnnAssign(self, node):
        if node.value is not None:
            node.value = self.visit(node.value)
        node.target = self.visit(node.target)
        return node

    def visit_FunctionDef(self, node):
        node.body = [self.visit(s) for s in node.body]
        node.decorator_list = [self.visit(d) for d in node.decorator_list]
        a = node.args
        a.defaults = [self.visit(d) for d in a.defaults]
        a.kw_defaults = [self.visit(d) if d is not None else None for d in a.kw_defaults]
        return node

    visit_AsyncFunctionDef = visit_FunctionDef

    def visit_Call(self, node):
        self.generic_visit(node)
        f = node.func
        if isinstance(f, ast.Name) and f.id in _SKIP_CALL_NAMES:
            return node
        if isinstance(f, ast.Attribute):
            new = ast.Call(func=self._name("__ks_callm__", node),
                           args=[f.value, ast.copy_location(ast.Constant(value=f.attr), node)] + node.args,
                           keywords=node.keywords)
        else:
            new = ast.Call(func=self._name("__ks_call__", node), args=[f] + node.args, keywords=node.keywords)
        return ast.copy_location(new, node)

    def visit_Subscript(self, node):
        self.generic_visit(node)
        if not isinstance(node.ctx, ast.Load):
            return node
        sl = node.slice
        if isinstance(sl, ast.Slice):
            none = ast.Constant(value=None)
            sl = ast.Call(func=self._name("slice", node),
                          args=[sl.lower or none, sl.upper or none, sl.step or none], keywords=[])
            ast.copy_location(sl, node)
        elif isinstance(sl, ast.Tuple) and any(isinstance(e, (ast.Slice, ast.Starred)) for e in sl.elts):
            return node
        elif isinstance(sl, ast.Starred):
            return node
        new = ast.Call(func=self._name("__ks_getitem__", node), args=[node.value, sl], keywords=[])
        return ast.copy_location(new, node)

    def visit_Compare(self, node):
        self.generic_visit(node)
        if len(node.ops) == 1 and isinstance(node.ops[0], (ast.In, ast.NotIn)):
            call = ast.Call(func=self._name("__ks_in__", node), args=[node.left, node.comparators[0]], keywords=[])
            ast.copy_location(call, node)
            if isinstance(node.ops[0], ast.NotIn):
                call = ast.copy_location(ast.UnaryOp(op=ast.Not(), operand=call), node)
            return call
        return node

    def visit_BinOp(self, node):
        self.generic_visit(node)
        if isinstance(node.op, ast.Mod):
            new = ast.Call(func=self._name("__ks_mod__", node), args=[node.left, node.right], keywords=[])
            return ast.copy_location(new, node)
        return node


def instrument_source(data, path):
    tree = ast.parse(data, path)
    tree = Rewriter().visit(tree)
    ast.fix_missing_locations(tree)
    return compile(tree, path, "exec", dont_inherit=True)


class KsLoader(importlib.machinery.SourceFileLoader):
    def get_code(self, fullname):
        path = self.get_filename(fullname)
        data = self.get_data(path)
        SOURCES[fullname] = (path, hashlib.sha256(data).hexdigest())
        return instrument_source(data, path)


class KsFinder(importlib.abc.MetaPathFinder):
    def __init__(self, prefixes):
        self.prefixes = tuple(prefixes)

    def find_spec(self, fullname, path, target=None):
        if not (fullname in self.prefixes or fullname.startswith(tuple(p + "." for p in self.prefixes))):
            return None
        spec = importlib.machinery.PathFinder.find_spec(fullname, path, target)
        if spec is None or not isinstance(spec.loader, importlib.machinery.SourceFileLoader):
            return spec
        spec.loader = KsLoader(spec.loader.name, spec.loader.path)
        return spec


def install(prefixes=("dulwich",), block_ext=True, repo=None):
    """install the import hook; must run before dulwich is imported"""
    import os
    repo = repo or os.environ.get("VERIF_REPO", "/repo")
    from . import models
    for m in list(sys.modules):
        if m == "dulwich" or m.startswith("dulwich."):
            raise RuntimeError("dulwich imported before instrumentation")
    if repo not in sys.path:
        sys.path.insert(0, repo)
    if block_ext:
        for ext in ("dulwich._pack", "dulwich._objects", "dulwich._diff_tree"):
            sys.modules[ext] = None
    models.install()
    sys.meta_path.insert(0, KsFinder(prefixes))
