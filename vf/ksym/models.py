"""Call/subscript/operator interposers injected into instrumented dulwich code,
and the models of C-level builtins on symbolic values (the trusted base of
ksym; differential-tested against CPython in selftest.py)."""
from __future__ import annotations

import binascii
import builtins
import io
import struct as _struct
import types
import z3

from .core import (SymQuot, SymInt, SymBool, Unsupported, cur, mk_bool, bv, is_sym, Ite, And, Or, Not,
                   as_symint, MARK)
from . import core as _core
from .sbytes import SymBytes, SymByteArray, SymBytesIO, elems_of, _out, _eqelem


class SymStr:
    """Opaque result of decoding symbolic bytes: may only be formatted into
    messages; any semantic use is Unsupported (never silently wrong)."""

    def __repr__(self):
        return "'" + MARK + "'"

    def __str__(self):
        return MARK

    def __format__(self, spec):
        return MARK

    def _no(self, *a, **k):
        raise Unsupported("semantic use of a symbolic str")

    __eq__ = __ne__ = __lt__ = __le__ = __gt__ = __ge__ = _no
    __add__ = __radd__ = __len__ = __iter__ = __getitem__ = __contains__ = __mod__ = _no
    __hash__ = _no

    def __getattr__(self, name):
        raise Unsupported(f"str.{name} on a symbolic str")


class SymText(str):
    """result of formatting a symbolic int with a numeric format spec: a real str (placeholder
    text) that remembers the symbolic ASCII rendering, recovered by .encode()"""

    def __new__(cls, elems):
        o = str.__new__(cls, MARK)
        o.elems = elems
        return o

    def encode(self, encoding="utf-8", errors="strict"):
        return _out(self.elems)


def fmt_symint(v, spec):
    import re
    m = re.fullmatch(r"(0?)(\d*)([xXdo]?)", spec or "")
    if not m:
        return MARK
    zero, width, conv = m.groups()
    try:
        return SymText(_fmt_int(v, conv or "d", "0" if zero else "", int(width) if width else 0))
    except Unsupported:
        return MARK


def _m_s_isdir(m):
    return (m & 0o170000) == 0o040000


def _m_s_isreg(m):
    return (m & 0o170000) == 0o100000


def _m_s_islnk(m):
    return (m & 0o170000) == 0o120000


PROXY = (SymQuot, SymInt, SymBool, SymBytes, SymBytesIO, SymStr)


_PROXY_SET = frozenset(PROXY) | {SymByteArray}


def has_sym(x, depth=3):
    """does x (shallowly nested) contain a proxy object?  (exact type tests: isinstance() would call
    __class__ through user-defined __getattribute__ methods of the code under test)"""
    tx = type(x)
    if tx in _PROXY_SET:
        return True
    if depth and (tx is list or tx is tuple) and len(x) <= 4096:
        for e in x:
            te = type(e)
            if te in _PROXY_SET or ((te is list or te is tuple) and has_sym(e, depth - 1)):
                return True
    return False


def unwrap(x, depth=3):
    """turn fully concrete SymBytes back into real bytes for native callees"""
    if isinstance(x, SymBytes):
        return x.try_unwrap()
    if depth and type(x) in (list, tuple):
        if any(isinstance(e, PROXY) or type(e) in (list, tuple) for e in x):
            return type(x)(unwrap(e, depth - 1) for e in x)
    return x


# --------------------------------------------------------------------------
# models

def m_int(x=0, base=None):
    if isinstance(x, SymInt):
        if base is not None:
            raise TypeError("int() can't convert non-string with explicit base")
        return x
    if isinstance(x, SymBool):
        return as_symint(x)
    if isinstance(x, SymQuot):
        return x.trunc()
    if isinstance(x, SymBytes):
        return parse_int(x.elems, 10 if base is None else base)
    if isinstance(x, SymStr):
        raise Unsupported("int(symbolic str)")
    if base is None:
        return int(x)
    return int(x, base)


def _digit_val(e, base):
    """(valid SymBool/bool, value) of one element as a digit in base"""
    if isinstance(e, int):
        c = chr(e)
        try:
            return True, int(c, 36) if int(c, 36) < base else None
        except ValueError:
            return False, None
    dig = And(e >= 48, e <= 57)
    low = And(e >= 97, e <= 122)
    upp = And(e >= 65, e <= 90)
    val = Ite(dig, e - 48, Ite(low, e - 87, Ite(upp, e - 55, 99)))
    return val < base, val


def _powsum(vals, base):
    """sum of digit * base^position, least significant first -- the same term shape the decimal
    formatter asserts for its fresh digits, so that parse(format(v)) == v is decided by rewriting"""
    tot = 0
    for i, d in enumerate(reversed(vals)):
        tot = tot + d * (base ** i)
    return tot


def parse_int(elems, base):
    """faithful model of int(bytes, base) for 2 <= base <= 36 (and base 0 is
    unsupported): optional surrounding whitespace, sign, base prefix when it
    matches `base`, single underscores between digits."""
    base = int(base)
    if base == 0 or not 2 <= base <= 36:
        raise Unsupported("int() base")
    n = len(elems)
    # fast path: every element is a digit of the base -> fork-free value
    if n > 0:
        conds, vals = [], []
        ok = True
        for e in elems:
            if isinstance(e, int):
                try:
                    v = int(chr(e), 36)
                except ValueError:
                    v = 99
                if v >= base:
                    ok = False
                    break
                vals.append(v)
            else:
                c, v = _digit_val(e, base)
                conds.append(c)
                vals.append(v)
        if ok and And(*conds):
            return _powsum(vals, base)
    # slow path: character-by-character, like the C parser
    i = 0
    ws = (9, 10, 11, 12, 13, 32)
    while i < n and SymBytes._isin(elems[i], ws):
        i += 1
    j = n
    while j > i and SymBytes._isin(elems[j - 1], ws):
        j -= 1
    body = elems[i:j]
    sign = 1
    if body and _eqelem(body[0], 45):
        sign = -1
        body = body[1:]
    elif body and _eqelem(body[0], 43):
        body = body[1:]
    pref = {16: (120, 88), 8: (111, 79), 2: (98, 66)}.get(base)
    if pref and len(body) >= 2 and _eqelem(body[0], 48) and SymBytes._isin(body[1], pref):
        # "0x" prefix: must be followed by a digit or underscore+digit
        rest = body[2:]
        if rest and _eqelem(rest[0], 95):
            rest = rest[1:]
        body2 = rest
        if not body2:
            raise ValueError("invalid literal for int()")
        body = body2
    if not body:
        raise ValueError("invalid literal for int()")
    digs = []
    prev_us = True  # leading underscore not allowed
    for k, e in enumerate(body):
        if _eqelem(e, 95):
            if prev_us:
                raise ValueError("invalid literal for int()")
            prev_us = True
            continue
        ok, v = _digit_val(e, base)
        if isinstance(e, int):
            if not ok or v is None:
                raise ValueError("invalid literal for int()")
        elif not ok:
            raise ValueError("invalid literal for int()")
        digs.append(v)
        prev_us = False
    if prev_us:
        raise ValueError("invalid literal for int()")
    acc = _powsum(digs, base)
    return -acc if sign == -1 else acc


def m_bytes(*args, **kw):
    if kw or len(args) > 1:
        if has_sym(args):
            raise Unsupported("bytes(x, encoding) on symbolic")
        return bytes(*args, **kw)
    if not args:
        return b""
    x = args[0]
    if isinstance(x, SymBytes):
        return _out(x.elems)
    if isinstance(x, (bytes, bytearray, memoryview, str)):
        return bytes(x)
    if isinstance(x, int) and not isinstance(x, bool):
        return bytes(x)
    if isinstance(x, SymInt):
        return bytes(cur().concretize(x))
    if hasattr(x, "__bytes__"):
        return x.__bytes__()
    lst = list(x)
    ba = SymByteArray()
    for e in lst:
        ba.append(e if not isinstance(e, SymBool) else as_symint(e))
    return _out(ba.elems)


def m_bytearray(*args, **kw):
    if kw or len(args) > 1:
        return SymByteArray(list(bytearray(*args, **kw)))
    if not args:
        return SymByteArray()
    x = args[0]
    e = elems_of(x)
    if e is not None:
        return SymByteArray(e)
    if isinstance(x, (int, SymInt)):
        return SymByteArray([0] * int(x))
    ba = SymByteArray()
    for v in x:
        ba.append(v)
    return ba


def m_ord(x):
    if isinstance(x, SymBytes):
        if len(x.elems) != 1:
            raise TypeError("ord() expected a character")
        return x.elems[0]
    return ord(x)


def m_chr(x):
    if isinstance(x, SymInt):
        raise Unsupported("chr(symbolic)")
    return chr(x)


_TYPEMAP = {SymInt: int, SymBool: bool, SymBytes: bytes, SymByteArray: bytearray, SymBytesIO: io.BytesIO,
            SymStr: str}


def _pytype(x):
    return _TYPEMAP.get(type(x), type(x))


def m_isinstance(x, t):
    if isinstance(x, PROXY):
        return issubclass(_pytype(x), t)
    return isinstance(x, t)


def m_type(*a):
    if len(a) == 1 and isinstance(a[0], PROXY):
        return _pytype(a[0])
    return type(*a)


def m_len(x):
    return len(x)


def m_str(*a, **k):
    if a and isinstance(a[0], (SymInt, SymBool)) and len(a) == 1:
        v = as_symint(a[0])
        if v < 0:
            return SymText([45] + _fmt_int(-v, "d", "", 0))
        return SymText(_fmt_int(v, "d", "", 0))
    if a and isinstance(a[0], SymBytes):
        if len(a) == 1:
            return repr(a[0])
        return a[0].decode(*a[1:], **k)
    return str(*a, **k)


def m_bool(x=False):
    if isinstance(x, SymBool):
        return x
    if isinstance(x, SymInt):
        return x != 0
    return bool(x)


def m_hexlify(data, *a):
    if a:
        raise Unsupported("hexlify sep")
    e = elems_of(data)
    out = []
    for b in e:
        if isinstance(b, int):
            out += list(b"%02x" % b)
        else:
            hi, lo = (b >> 4) & 15, b & 15
            out.append(Ite(hi < 10, hi + 48, hi + 87))
            out.append(Ite(lo < 10, lo + 48, lo + 87))
    return _out(out)


def m_unhexlify(data):
    e = elems_of(data)
    if e is None:
        return binascii.unhexlify(data)
    if len(e) % 2:
        raise binascii.Error("Odd-length string")
    out = []
    for i in range(0, len(e), 2):
        vs = []
        for c in e[i:i + 2]:
            if isinstance(c, int):
                try:
                    v = int(chr(c), 16)
                except ValueError:
                    raise binascii.Error("Non-hexadecimal digit found") from None
                vs.append(v)
            else:
                ok, v = _digit_val(c, 16)
                if not ok:
                    raise binascii.Error("Non-hexadecimal digit found")
                vs.append(v)
        out.append(vs[0] * 16 + vs[1])
    return _out(out)


# ---- struct

_CODES = {"B": (1, False), "b": (1, True), "H": (2, False), "h": (2, True), "I": (4, False), "i": (4, True),
          "L": (4, False), "l": (4, True), "Q": (8, False), "q": (8, True)}


def _parse_fmt(fmt):
    if isinstance(fmt, bytes):
        fmt = fmt.decode()
    order = ">"
    if fmt and fmt[0] in "<>!=@":
        order = {"!": ">", "=": "<", "@": None}.get(fmt[0], fmt[0])
        fmt = fmt[1:]
    else:
        order = None
    if order is None:
        raise Unsupported("native struct alignment")
    items = []
    num = ""
    for ch in fmt:
        if ch.isdigit():
            num += ch
            continue
        if ch == " ":
            continue
        cnt = int(num) if num else 1
        num = ""
        if ch == "s":
            items.append(("s", cnt))
        elif ch == "x":
            items.append(("x", cnt))
        elif ch in _CODES:
            items += [(ch, 1)] * cnt
        else:
            raise Unsupported(f"struct code {ch}")
    return order, items


def m_struct_pack(fmt, *vals):
    if not has_sym(vals):
        return _struct.pack(fmt, *[unwrap(v) for v in vals])
    order, items = _parse_fmt(fmt)
    if len([i for i in items if i[0] != "x"]) != len(vals):
        raise _struct.error("pack expected different number of items")
    out = []
    vi = 0
    for code, cnt in items:
        if code == "x":
            out += [0] * cnt
            continue
        v = vals[vi]
        vi += 1
        if code == "s":
            e = elems_of(v)
            if e is None:
                raise _struct.error("argument for 's' must be a bytes object")
            e = e[:cnt] + [0] * (cnt - len(e))
            out += e
            continue
        size, signed = _CODES[code]
        if isinstance(v, SymBool):
            v = as_symint(v)
        if not isinstance(v, (int, SymInt)):
            raise _struct.error("required argument is not an integer")
        lo, hi = (-(1 << (8 * size - 1)), (1 << (8 * size - 1)) - 1) if signed else (0, (1 << (8 * size)) - 1)
        if Or(v < lo, v > hi):
            raise _struct.error(f"'{code}' format requires {lo} <= number <= {hi}")
        bs = [(v >> (8 * i)) & 0xFF for i in range(size)]
        if order == ">":
            bs.reverse()
        out += bs
    return _out(out)


def _calcsize(items):
    n = 0
    for code, cnt in items:
        n += cnt if code in "sx" else _CODES[code][0]
    return n


def m_struct_unpack_from(fmt, buf, offset=0):
    e = elems_of(buf)
    if e is None or (not has_sym(buf) and not is_sym(offset)):
        return _struct.unpack_from(fmt, unwrap(buf), offset)
    order, items = _parse_fmt(fmt)
    offset = int(offset)
    if offset < 0:
        offset += len(e)
    size = _calcsize(items)
    if offset < 0 or offset + size > len(e):
        raise _struct.error(f"unpack_from requires a buffer of at least {offset + size} bytes")
    out = []
    p = offset
    for code, cnt in items:
        if code == "x":
            p += cnt
            continue
        if code == "s":
            out.append(_out(e[p:p + cnt]))
            p += cnt
            continue
        size1, signed = _CODES[code]
        bs = e[p:p + size1]
        p += size1
        if order == "<":
            bs = bs[::-1]
        v = 0
        for b in bs:
            v = (v << 8) | b
        if signed:
            v = Ite(v >= (1 << (8 * size1 - 1)), v - (1 << (8 * size1)), v) if is_sym(v) else (
                v - (1 << (8 * size1)) if v >= (1 << (8 * size1 - 1)) else v)
        out.append(v)
    return tuple(out)


def m_struct_unpack(fmt, buf):
    e = elems_of(buf)
    if e is None or not has_sym(buf):
        return _struct.unpack(fmt, unwrap(buf))
    order, items = _parse_fmt(fmt)
    if _calcsize(items) != len(e):
        raise _struct.error(f"unpack requires a buffer of {_calcsize(items)} bytes")
    return m_struct_unpack_from(fmt, buf, 0)


class _StructModel:
    def __init__(self, fmt):
        self.format = fmt
        self.size = _struct.calcsize(fmt)

    def pack(self, *v):
        return m_struct_pack(self.format, *v)

    def unpack(self, b):
        return m_struct_unpack(self.format, b)

    def unpack_from(self, b, offset=0):
        return m_struct_unpack_from(self.format, b, offset)


def m_int_from_bytes(b, byteorder="big", *, signed=False):
    e = elems_of(b)
    if signed:
        raise Unsupported("from_bytes signed")
    if byteorder == "little":
        e = e[::-1]
    v = 0
    for x in e:
        v = (v << 8) | x
    return v


def m_frozenset_issuperset(self, other):
    e = elems_of(other)
    if e is None:
        return self.issuperset(other)
    keys = sorted(k for k in self if isinstance(k, int))
    conds = []
    for x in e:
        if isinstance(x, int):
            if x not in self:
                return False
        else:
            conds.append(_member(x, keys))
    return And(*conds) if conds else True


def _member(x, keys):
    """x in keys as a non-forking disjunction (keys: sorted concrete ints)"""
    # compress consecutive runs into ranges
    parts = []
    i = 0
    while i < len(keys):
        j = i
        while j + 1 < len(keys) and keys[j + 1] == keys[j] + 1:
            j += 1
        parts.append(And(x >= keys[i], x <= keys[j]) if j > i else (x == keys[i]))
        i = j + 1
    return Or(*parts) if parts else False


MODELS = {
    int: m_int,
    bytes: m_bytes,
    bytearray: m_bytearray,
    ord: m_ord,
    chr: m_chr,
    isinstance: m_isinstance,
    type: m_type,
    str: m_str,
    bool: m_bool,
    io.BytesIO: SymBytesIO,
    binascii.hexlify: m_hexlify,
    binascii.b2a_hex: m_hexlify,
    binascii.unhexlify: m_unhexlify,
    binascii.a2b_hex: m_unhexlify,
    _struct.pack: m_struct_pack,
    _struct.unpack: m_struct_unpack,
    _struct.unpack_from: m_struct_unpack_from,
    _struct.Struct: _StructModel,
    int.from_bytes: m_int_from_bytes,
    memoryview: lambda x: x if isinstance(x, SymBytes) else memoryview(x),
}
import hashlib as _hashlib


class SymHash:
    """hashlib object that hashes for real while everything fed to it is concrete and degrades to an
    *uninterpreted* digest (fresh symbolic bytes) once symbolic data has been hashed: sound for code that only
    stores the digest, inconclusive (non-reproducing) for code whose verdict depends on it"""

    def __init__(self, ctor, data=b""):
        self._h = ctor()
        self._tainted = False
        self.digest_size = self._h.digest_size
        self.name = self._h.name
        if data:
            self.update(data)

    def update(self, data):
        if has_sym(data):
            self._tainted = True
            return
        self._h.update(unwrap(data) if isinstance(data, SymBytes) else data)

    def digest(self):
        if not self._tainted:
            return self._h.digest()
        eng = cur()
        eng._fresh = getattr(eng, "_fresh", 0) + 1
        out = []
        for i in range(self.digest_size):
            v = z3.BitVec(f"_hash{eng._fresh}_{i}", _core.W)
            eng.solver.add(z3.ULE(v, 255))
            out.append(SymInt(v, 0, 255))
        return SymBytes(out)

    def hexdigest(self):
        if not self._tainted:
            return self._h.hexdigest()
        raise Unsupported("hexdigest of a hash over symbolic data")

    def copy(self):
        c = SymHash.__new__(SymHash)
        c._h = self._h.copy()
        c._tainted = self._tainted
        c.digest_size = self.digest_size
        c.name = self.name
        return c


import posixpath as _pp


def _m_pathjoin(a, *ps):
    """posixpath.join for bytes (pure string operation; the real one calls os.fspath in C)"""
    path = a
    for b in ps:
        if b.startswith(b"/"):
            path = b
        elif not path or path.endswith(b"/"):
            path = path + b
        else:
            path = path + b"/" + b
    return path


MODELS[_pp.join] = _m_pathjoin
import stat as _stat_mod
MODELS[_stat_mod.S_ISDIR] = _m_s_isdir
MODELS[_stat_mod.S_ISREG] = _m_s_isreg
MODELS[_stat_mod.S_ISLNK] = _m_s_islnk
MODELS[_stat_mod.S_IFMT] = lambda m: m & 0o170000
MODELS[_stat_mod.S_IMODE] = lambda m: m & 0o7777
# models that must be used even when no argument is symbolic (identity-bearing objects)
ALWAYS = {bytearray, io.BytesIO}
for _ctor in (_hashlib.sha1, _hashlib.sha256):
    MODELS[_ctor] = (lambda c: (lambda *a, **k: SymHash(c, *a)))(_ctor)
    ALWAYS.add(_ctor)

# C-level callables that are safe to run natively on proxy arguments because they
# only use the (proxied) rich comparison / iteration / truth protocols
SAFE_NATIVE = {
    len, min, max, sorted, sum, any, all, enumerate, zip, reversed, list, tuple, iter, next, map, filter,
    range, divmod, abs, repr, hasattr, getattr, setattr, id, callable, dict, set, frozenset, print, hash,
    slice, format, issubclass, object, super, vars, delattr, memoryview.tobytes,
}
import heapq as _heapq
import itertools as _itertools
SAFE_NATIVE |= {_heapq.heappush, _heapq.heappop, _heapq.heapify, _heapq.heapreplace, _heapq.heappushpop,
                _itertools.chain, _itertools.islice}
SAFE_SELF_TYPES = (list, dict, tuple, set, frozenset, type(None), types.GeneratorType)

_BUILTIN_KINDS = (types.BuiltinFunctionType, types.BuiltinMethodType, types.MethodDescriptorType,
                  types.WrapperDescriptorType, types.MethodWrapperType, types.ClassMethodDescriptorType)

STATS = {"calls": 0, "model": 0}


def _bytes_method(self_obj, name, args, kw):
    """method of a real bytes/bytearray called with symbolic arguments"""
    sb = SymByteArray(list(self_obj)) if isinstance(self_obj, bytearray) else SymBytes(list(self_obj))
    return getattr(sb, name)(*args, **kw)


def ks_call(f, /, *args, **kw):
    try:
        m = MODELS.get(f)
    except TypeError:
        m = None
    if m is not None:
        if f in ALWAYS or has_sym(args) or (kw and has_sym(tuple(kw.values()))):
            return m(*args, **kw)
        return f(*args, **kw)
    if isinstance(f, _BUILTIN_KINDS) or (isinstance(f, type) and f.__module__ in ("builtins", "io", "zlib", "_struct", "collections")):
        sym = has_sym(args) or (kw and has_sym(tuple(kw.values())))
        if not sym:
            return f(*args, **kw)
        slf = getattr(f, "__self__", None)
        if slf is not None and not isinstance(slf, types.ModuleType):
            name = f.__name__
            if isinstance(slf, (bytes, bytearray)):
                return _bytes_method(slf, name, args, kw)
            if isinstance(slf, frozenset) and name == "issuperset":
                return m_frozenset_issuperset(slf, *args)
            if isinstance(slf, (set, frozenset)) and name in ("__contains__",):
                return ks_in(args[0], slf)
            if isinstance(slf, SAFE_SELF_TYPES) or type(slf).__module__ == "collections":
                return f(*args, **kw)
            if isinstance(slf, (io.BytesIO, io.BufferedIOBase, io.RawIOBase)) and name in ("write", "writelines"):
                ua = unwrap(args)
                if not has_sym(ua):
                    return f(*ua, **kw)
            raise Unsupported(f"native method {type(slf).__name__}.{name} with symbolic arguments")
        if f in SAFE_NATIVE:
            return f(*args, **kw)
        ua = unwrap(args)
        uk = {k: unwrap(v) for k, v in kw.items()} if kw else kw
        if not has_sym(ua) and not (uk and has_sym(tuple(uk.values()))):
            return f(*ua, **uk)
        raise Unsupported(f"native callable {getattr(f, '__qualname__', f)} with symbolic arguments")
    return f(*args, **kw)


def ks_callm(obj, name, /, *args, **kw):
    if isinstance(obj, (SymBytes, SymBytesIO)):
        return getattr(obj, name)(*args, **kw)
    if type(obj) is str and name == "encode" and MARK in obj:
        raise Unsupported("encode() of a message containing a symbolic placeholder")
    return ks_call(getattr(obj, name), *args, **kw)


def ks_getitem(obj, idx):
    if isinstance(obj, (bytes, bytearray)) and (has_sym(idx) or (isinstance(idx, slice) and
                                                               has_sym((idx.start, idx.stop, idx.step)))):
        if isinstance(idx, slice):
            return obj[idx]  # slice.indices() concretises through __index__ (sound)
        # symbolic index into concrete bytes: ite chain instead of forking
        n = len(obj)
        if isinstance(idx, SymBool):
            idx = as_symint(idx)
        if Or(idx >= n, idx < -n):
            raise IndexError("index out of range")
        i = Ite(idx < 0, idx + n, idx)
        if n > 512:
            return obj[cur().concretize(i)]
        r = obj[n - 1]
        for k in range(n - 2, -1, -1):
            r = Ite(i == k, obj[k], r)
        return r
    if type(obj) is dict and isinstance(idx, (SymInt, SymBool)) and len(obj) <= 64:
        idx = as_symint(idx)
        for k in obj:
            if isinstance(k, int) and idx == k:   # forks per key, like a switch
                return obj[k]
        raise KeyError(MARK)
    return obj[idx]


def ks_in(a, b):
    if isinstance(a, (SymInt, SymBool)) and isinstance(b, (set, frozenset, dict)) and len(b) <= 1024:
        keys = sorted(k for k in b if isinstance(k, int) and not isinstance(k, bool))
        return _member(as_symint(a), keys)
    if isinstance(a, (SymInt, SymBool)) and isinstance(b, (bytes, bytearray)) and len(b) <= 1024:
        return _member(as_symint(a), sorted(set(b)))
    if isinstance(a, (SymInt, SymBool)) and isinstance(b, range) and b.step == 1:
        return And(a >= b.start, a < b.stop)
    if isinstance(a, SymBytes) and isinstance(b, (bytes, bytearray)):
        return SymBytes(list(b)).find(a) != -1
    if isinstance(a, SymBytes) and isinstance(b, (set, frozenset, dict)):
        if len(b) > 64:
            raise Unsupported("symbolic bytes in large set")
        return Or(*[a._eq(k) for k in b if isinstance(k, (bytes, bytearray))])
    return a in b


def _fmt_int(v, conv, flags, width):
    """b'%04x' style rendering of a possibly symbolic int -> element list"""
    if isinstance(v, SymQuot):
        v = v.trunc()
    if not isinstance(v, (SymInt, SymBool)):
        spec = "%" + flags + (str(width) if width else "") + conv
        return list((spec % v).encode("ascii"))
    v = as_symint(v)
    base = {"x": 16, "X": 16, "o": 8, "d": 10, "i": 10, "u": 10}[conv]
    if v < 0:
        if conv in "di" and "-" not in flags:
            inner = _fmt_int(-v, conv, "", 0)
            body = [45] + inner
            if width and len(body) < width:
                if "0" in flags:
                    body = [45] + [48] * (width - len(body)) + inner
                else:
                    body = [32] * (width - len(body)) + body
            return body
        raise Unsupported("formatting a negative symbolic int")
    # number of digits: fork on magnitude (at most ~40 cases)
    nd = 1
    lim = base
    while v >= lim:
        nd += 1
        lim *= base
        if nd > 40:
            raise Unsupported("too many digits")
    digs = []
    if base == 10:
        # definitional extension instead of division by 10 (which stalls bit-blasting): fresh digit
        # variables d_i in [0,9] with v == sum d_i*10^i.  For a v with exactly nd digits this vector
        # exists and is unique, so adding the equation to the path condition changes no verdict.
        eng = cur()
        eng._fresh = getattr(eng, "_fresh", 0) + 1
        tot = 0
        for i in range(nd):
            dv = z3.BitVec(f"_dig{eng._fresh}_{i}", _core.W)
            eng.solver.add(z3.ULE(dv, 9))
            d = SymInt(dv, 0, 9)
            tot = tot + d * (10 ** i)
            digs.append(d + 48)
        eng.solver.add(bv(tot) == bv(v))
    else:
        x = v
        for _ in range(nd):
            d = x % base
            x = x // base
            if base == 16:
                a = 87 if conv == "x" else 55
                digs.append(Ite(d < 10, d + 48, d + a))
            else:
                digs.append(d + 48)
    digs.reverse()
    if width and len(digs) < width:
        pad = 48 if "0" in flags else 32
        if "-" in flags:
            digs = digs + [32] * (width - len(digs))
        else:
            digs = [pad] * (width - len(digs)) + digs
    return digs


def ks_mod(l, r):
    if isinstance(l, (bytes, str)) and has_sym(r if isinstance(r, tuple) else (r,)):
        isb = isinstance(l, bytes)
        fmt = l.decode("latin-1") if isb else l
        args = list(r) if isinstance(r, tuple) else [r]
        out = []
        i = 0
        ai = 0
        while i < len(fmt):
            ch = fmt[i]
            if ch != "%":
                out.append(ord(ch))
                i += 1
                continue
            i += 1
            if fmt[i] == "%":
                out.append(37)
                i += 1
                continue
            flags = ""
            while fmt[i] in "-0 +#":
                flags += fmt[i]
                i += 1
            width = ""
            while fmt[i].isdigit():
                width += fmt[i]
                i += 1
            conv = fmt[i]
            i += 1
            a = args[ai]
            ai += 1
            if conv in "xXodiu":
                out += _fmt_int(a, conv, flags, int(width) if width else 0)
            elif conv in "sb" and isb:
                e = elems_of(a)
                if e is None:
                    raise Unsupported("%s of non-bytes")
                if width:
                    raise Unsupported("%s with width")
                out += e
            elif conv == "c":
                out.append(a if isinstance(a, (int, SymInt)) else (ord(a) if isinstance(a, str) else elems_of(a)[0]))
            elif not isb:
                out += [MARK]
            else:
                raise Unsupported(f"format %{conv}")
        if not isb:
            if all(isinstance(c, (int, SymInt)) for c in out):
                return SymText(out)
            return "".join(chr(c) if isinstance(c, int) else MARK for c in out)
        return _out(out)
    return l % r


def install():
    builtins.__ks_call__ = ks_call
    builtins.__ks_callm__ = ks_callm
    builtins.__ks_getitem__ = ks_getitem
    builtins.__ks_in__ = ks_in
    builtins.__ks_mod__ = ks_mod
