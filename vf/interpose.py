"""File-system interposition for the real dulwich code (no source changes): the `os` global and the
`open` builtin of selected dulwich modules are replaced by wrappers that call a hook before every
file-system system call.  The hook can take a crash image, inject a fault, or switch to another
actor (greenlet).  Work happens in real directories under /dev/shm."""
from __future__ import annotations

import builtins
import errno
import importlib
import os
import shutil
import types

MODULES = ["dulwich.file", "dulwich.refs", "dulwich.index", "dulwich.config", "dulwich.object_store",
           "dulwich.repo", "dulwich.worktree", "dulwich.pack", "dulwich.gc", "dulwich.objects", "dulwich.reflog"]

WRAPPED = ["open", "fsync", "replace", "rename", "remove", "unlink", "rmdir", "mkdir", "makedirs", "link",
           "chmod", "utime", "symlink", "truncate"]


class Crash(BaseException):
    pass


class FileProxy:
    """file object whose write/flush/close are visible steps"""

    def __init__(self, ip, f, path):
        self._ip, self._f, self._path = ip, f, path

    def write(self, data):
        self._ip.step("write", self._path)
        return self._f.write(data)

    def writelines(self, lines):
        self._ip.step("write", self._path)
        return self._f.writelines(lines)

    def flush(self):
        self._ip.step("flush", self._path)
        return self._f.flush()

    def close(self):
        if not self._f.closed:
            self._ip.step("close", self._path)
        return self._f.close()

    def __enter__(self):
        return self

    def __exit__(self, *a):
        self.close()

    def __iter__(self):
        return iter(self._f)

    def __getattr__(self, n):
        return getattr(self._f, n)


class Interposer:
    def __init__(self, root, hook=None, wrap_reads=False):
        self.root = os.fsencode(root) if isinstance(root, str) else root
        self.hook = hook
        self.n = 0
        self.log = []
        self.active = False
        self.wrap_reads = wrap_reads
        self._saved = []
        self._fdpath = {}
        self._fd_of_file = {}
        # power-loss bookkeeping: path -> content at its last fsync (None = never synced), for files written
        # since interposition started; follows renames
        self.durable = {}
        self.written = set()

    def _inside(self, p):
        try:
            b = os.fsencode(p)
        except TypeError:
            return False
        return b.startswith(self.root)

    def step(self, name, path=None):
        if not self.active:
            return
        i = self.n
        self.n += 1
        self.log.append((name, os.fsdecode(path)[len(self.root):] if path is not None and self._inside(path) else str(path)))
        if self.hook:
            self.hook(i, name, path)

    # -- wrappers
    def _w_generic(self, name):
        real = getattr(os, name)

        def w(*a, **k):
            if a and self._inside(a[0]):
                self.step(name, a[0])
            return real(*a, **k)
        return w

    def _w_os_open(self, path, flags, mode=0o777, **k):
        writing = bool(flags & (os.O_WRONLY | os.O_RDWR | os.O_CREAT))
        if self._inside(path) and (writing or self.wrap_reads):
            self.step("open", path)
        fd = os.open(path, flags, mode, **k)
        self._fdpath[fd] = path
        return fd

    def _w_fdopen(self, fd, mode="r", *a, **k):
        f = os.fdopen(fd, mode, *a, **k)
        path = self._fdpath.get(fd, None)
        if path is not None and self._inside(path) and any(c in mode for c in "wa+"):
            self.written.add(os.fsencode(path))
            self.durable.setdefault(os.fsencode(path), None)
            return FileProxy(self, f, path)
        return f

    def _w_fsync(self, fd):
        path = self._fdpath.get(fd)
        self.step("fsync", path)
        r = os.fsync(fd)
        if path is not None and self._inside(path):
            try:
                with builtins.open(path, "rb") as fh:
                    self.durable[os.fsencode(path)] = fh.read()
            except OSError:
                pass
        return r

    def _w_rename(self, name):
        real = getattr(os, name)

        def w(a, b, *x, **k):
            if self._inside(a):
                self.step(name, a)
            r = real(a, b, *x, **k)
            ka, kb = os.fsencode(a), os.fsencode(b)
            if ka in self.written:
                self.written.discard(ka)
                self.written.add(kb)
                self.durable[kb] = self.durable.pop(ka, None)
            return r
        return w

    def _w_open(self, file, mode="r", *a, **k):
        if isinstance(file, (str, bytes, os.PathLike)) and self._inside(os.fspath(file)):
            writing = any(c in mode for c in "wax+")
            if writing or self.wrap_reads:
                self.step("open", os.fspath(file))
            f = builtins.open(file, mode, *a, **k)
            if writing:
                self.written.add(os.fsencode(os.fspath(file)))
                self.durable.setdefault(os.fsencode(os.fspath(file)), None)
                try:
                    self._fdpath[f.fileno()] = os.fspath(file)
                except (OSError, ValueError):
                    pass
                return FileProxy(self, f, os.fspath(file))
            return f
        return builtins.open(file, mode, *a, **k)

    def _w_listdir(self, path="."):
        if self.wrap_reads and self._inside(path):
            self.step("listdir", path)
        return os.listdir(path)

    def _w_walk(self, top, *a, **k):
        """os.walk with a scheduling point before every directory it lists (reads only)"""
        it = os.walk(top, *a, **k)
        while True:
            if self.wrap_reads and isinstance(top, (str, bytes)) and self._inside(top):
                self.step("walk", top)
            try:
                item = next(it)
            except StopIteration:
                return
            yield item

    def _w_stat(self, name):
        real = getattr(os, name)

        def w(path, *a, **k):
            if self.wrap_reads and isinstance(path, (str, bytes)) and self._inside(path):
                self.step(name, path)
            return real(path, *a, **k)
        return w

    def namespace(self):
        ns = types.SimpleNamespace()
        for k in dir(os):
            if not k.startswith("__"):
                setattr(ns, k, getattr(os, k))
        for name in WRAPPED:
            if name == "open":
                ns.open = self._w_os_open
            elif name == "fsync":
                ns.fsync = self._w_fsync
            elif name in ("replace", "rename"):
                setattr(ns, name, self._w_rename(name))
            elif hasattr(os, name):
                setattr(ns, name, self._w_generic(name))
        ns.fdopen = self._w_fdopen
        ns.listdir = self._w_listdir
        ns.walk = self._w_walk
        for name in ("stat", "lstat"):
            setattr(ns, name, self._w_stat(name))
        return ns

    def __enter__(self):
        ns = self.namespace()
        for mn in MODULES:
            try:
                m = importlib.import_module(mn)
            except ImportError:
                continue
            if hasattr(m, "os"):
                self._saved.append((m, "os", m.os))
                m.os = ns
            self._saved.append((m, "open", m.__dict__.get("open", None)))
            m.open = self._w_open
        self.active = True
        return self

    def __exit__(self, *a):
        self.active = False
        for m, attr, val in reversed(self._saved):
            if attr == "open" and val is None:
                m.__dict__.pop("open", None)
            else:
                setattr(m, attr, val)
        self._saved = []
        return False


_seq = [0]


def scratch(tag):
    base = f"/dev/shm/vf-{tag}-{os.getpid()}"
    _seq[0] += 1
    d = os.path.join(base, str(_seq[0]))
    shutil.rmtree(d, ignore_errors=True)
    os.makedirs(d)
    return d


def fault(name):
    return OSError(errno.EIO, f"injected I/O error in {name}")
