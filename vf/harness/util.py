"""shared helpers for CrossHair harness modules"""
import json
import os
import sys

for _ext in ("dulwich._pack", "dulwich._objects", "dulwich._diff_tree"):
    sys.modules.setdefault(_ext, None)
if "/repo" not in sys.path:
    sys.path.insert(0, os.environ.get("VERIF_REPO", "/repo"))

PART = json.loads(os.environ.get("VF_PART") or "{}")
KNOWN = set(filter(None, (os.environ.get("VF_KNOWN") or "").split(",")))
_STATS = os.environ.get("VF_STATS")
_fd = os.open(_STATS, os.O_WRONLY | os.O_APPEND) if _STATS else None


def tick():
    """count one executed path (called once per harness body execution)"""
    if _fd is not None:
        try:
            os.write(_fd, b".")
        except OSError:
            pass


def known(fid):
    return fid in KNOWN
