import sys, time
sys.modules['dulwich._pack'] = None
sys.modules['dulwich._objects'] = None
sys.modules['dulwich._diff_tree'] = None
import z3
from ksym0 import *
import dulwich.pack as P
from dulwich.errors import ApplyDeltaError

N = int(sys.argv[1]); SRC = int(sys.argv[2])
G = dict(P.__dict__)
eng = Engine(max_loop=N + 2)
clo = eng.load_pyfunc(P.apply_delta)
assert clo.node.name == 'apply_delta'
delta = [z3.BitVec(f'd{i}', W) for i in range(N)]
src = [z3.BitVec(f's{i}', W) for i in range(SRC)]
for v in delta + src:
    eng.solver.add(z3.ULE(v, 255))
t0 = time.time(); paths = 0; kinds = {}; bad = 0; wf = 0
def one(e):
    e.obligations = []
    return e.call_function(clo, [SBytes([SI(x) for x in src]), SBytes([SI(x) for x in delta])])
for kind, v in eng.explore(one):
    paths += 1
    if eng.obligations and eng.check(z3.Not(z3.And(eng.obligations))) != z3.unsat:
        wf += 1
    if kind == 'raise':
        kinds[v.__name__] = kinds.get(v.__name__, 0) + 1
        if v is not ApplyDeltaError:
            bad += 1
            eng.check(); print("CEX", v, [eng.solver.model().eval(x) for x in delta])
    else:
        kinds['ok'] = kinds.get('ok', 0) + 1
print(f"apply_delta |delta|={N} |src|={SRC}: paths={paths} kinds={kinds} bad={bad} width_fail={wf} checks={eng.n_checks} solver={eng.t_solver:.1f}s wall={time.time()-t0:.1f}s")
