import sys, time
sys.modules['dulwich._pack'] = None
sys.modules['dulwich._objects'] = None
sys.modules['dulwich._diff_tree'] = None
import z3
from ksym0 import *
import dulwich.pack as P
from dulwich.object_format import DEFAULT_OBJECT_FORMAT
from dulwich.errors import ApplyDeltaError

def take_msb(raw, pos):
    out = []
    while True:
        b = raw[pos]
        pos += 1
        out.append(b)
        if not b & 0x80:
            return out, pos

def h_hdr(type_num, size):
    h = pack_object_header(type_num, None, size, FMT)
    raw, pos = take_msb(list(h), 0)
    t, s = _decode_object_header(raw)
    return t, s, pos, len(h)

def h_ofs(size, ofs):
    h = pack_object_header(6, ofs, size, FMT)
    raw, pos = take_msb(list(h), 0)
    raw2, pos2 = take_msb(list(h), pos)
    return _decode_delta_base_offset(raw2), pos2, len(h)

G = dict(P.__dict__); G['FMT'] = DEFAULT_OBJECT_FORMAT; G['take_msb'] = None

def run(name, harness_fn, mkargs, post, max_loop=64):
    eng = Engine(max_loop=max_loop)
    # load harness + helper as closures sharing globals G
    import inspect, textwrap, ast
    def clo(f):
        node = ast.parse(textwrap.dedent(inspect.getsource(f))).body[0]
        return Closure(node, Env(globs=G), G)
    G['take_msb'] = clo(take_msb)
    hc = clo(harness_fn)
    args, pre = mkargs()
    eng.solver.add(pre)
    t0 = time.time(); paths = 0; bad = 0; oblig_fail = 0
    def one(e):
        e.obligations = []
        return e.call_function(hc, list(args))
    for out in eng.explore(one):
        paths += 1
        # width obligations
        if eng.obligations:
            if eng.check(z3.Not(z3.And(eng.obligations))) != z3.unsat:
                oblig_fail += 1
        neg = post(out, args)
        if neg is not None:
            r = eng.check(neg)
            if r != z3.unsat:
                bad += 1
                print("  CEX", r, eng.solver.model() if r == z3.sat else None, out)
    print(f"{name}: paths={paths} violations={bad} width_fail={oblig_fail} checks={eng.n_checks} solver={eng.t_solver:.2f}s wall={time.time()-t0:.2f}s")

def lit(list_v):
    return list_v

# --- harness 1
def mk1():
    t = z3.BitVec('type', W); s = z3.BitVec('size', W)
    return (SI(t), SI(s)), z3.And(t >= 1, t <= 4, s >= 0, s < 2**63)
def post1(out, args):
    kind, v = out
    if kind != 'ok':
        return z3.BoolVal(True)
    t, s, pos, ln = v
    return z3.Not(z3.And(bv(t) == bv(args[0]), bv(s) == bv(args[1]), bv(pos) == bv(ln)))
run("hdr_rt size<2^63", h_hdr, mk1, post1)

def mk2():
    s = z3.BitVec('size', W); o = z3.BitVec('ofs', W)
    return (SI(s), SI(o)), z3.And(s >= 0, s < 16, o >= 1, o < 2**63)
def post2(out, args):
    kind, v = out
    if kind != 'ok':
        return z3.BoolVal(True)
    o, pos, ln = v
    return z3.Not(z3.And(bv(o) == bv(args[1]), bv(pos) == bv(ln)))
run("ofs_rt ofs<2^63", h_ofs, mk2, post2)
