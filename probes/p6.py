import sys
sys.modules['dulwich._pack'] = None
sys.modules['dulwich._objects'] = None
sys.modules['dulwich._diff_tree'] = None
from dulwich.refs import DictRefsContainer
from typing import List

NAMES = [b"refs/heads/a", b"refs/heads/b", b"HEAD"]
SHAS = [b"1"*40, b"2"*40, b"3"*40]
ZERO = b"0"*40

def build(state: List[int]):
    d = {}
    for n, s in zip(NAMES, state):
        if s == 0: continue
        if s <= 3: d[n] = SHAS[s-1]
        else: d[n] = b"ref: " + NAMES[s-4]
    return d

def resolve(d, n, depth=0):
    v = d.get(n)
    if v is None: return n, None
    if v.startswith(b"ref: ") and depth < 5:
        return resolve(d, v[5:], depth+1)
    return n, v

def cas_step(state: List[int], name_i: int, old_i: int, new_i: int) -> bool:
    """
    pre: len(state) == 3 and all(0 <= s <= 5 for s in state)
    pre: state[2] != 6 and state[0] != 4 and state[1] != 5
    pre: not (state[0] == 5 and state[1] == 4)
    pre: 0 <= name_i < 3 and 0 <= old_i <= 4 and 0 <= new_i < 3
    post: _
    """
    d = build(state)
    c = DictRefsContainer(dict(d))
    old = None if old_i == 4 else (ZERO if old_i == 3 else SHAS[old_i])
    name = NAMES[name_i]
    real, cur = resolve(d, name)
    ok = c.set_if_equals(name, old, SHAS[new_i])
    expect_ok = old is None or (cur if cur is not None else ZERO) == old
    model = dict(d)
    if expect_ok:
        model[real] = SHAS[new_i]
    return ok == expect_ok and c._refs == model
