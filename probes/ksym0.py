"""Throwaway prototype of E2 (ksym): AST-level symbolic executor with re-execution
forking, ints as BV(W), bytes as element lists. Only what the probe kernels need."""
import ast, inspect, textwrap, time, sys
import z3

W = 128


class Unsupported(Exception):
    pass


class PyRaise(Exception):
    def __init__(self, exc_cls, msg=None):
        self.exc_cls = exc_cls
        self.msg = msg


class _Return(Exception):
    def __init__(self, v):
        self.v = v


class _Break(Exception):
    pass


class _Continue(Exception):
    pass


class Unwind(Exception):
    pass


class SI:
    """symbolic int"""
    __slots__ = ("t",)

    def __init__(self, t):
        self.t = t

    def __repr__(self):
        return f"SI({self.t})"


class SBool:
    __slots__ = ("t",)

    def __init__(self, t):
        self.t = t


class SBytes:
    """bytes with concrete length, elements int|SI (0..255)"""

    def __init__(self, elems, mutable=False):
        self.elems = list(elems)
        self.mutable = mutable

    def __repr__(self):
        return f"SBytes({self.elems})"


def bv(x):
    if isinstance(x, SI):
        return x.t
    if isinstance(x, bool):
        return z3.BitVecVal(int(x), W)
    if isinstance(x, int):
        return z3.BitVecVal(x, W)
    if isinstance(x, SBool):
        return z3.If(x.t, z3.BitVecVal(1, W), z3.BitVecVal(0, W))
    raise Unsupported(f"bv({type(x)})")


def is_sym(x):
    return isinstance(x, (SI, SBool))


class Cell:
    def __init__(self, v=None):
        self.v = v


class Env:
    def __init__(self, parent=None, globs=None):
        self.vars = {}
        self.parent = parent
        self.globs = globs if globs is not None else (parent.globs if parent else {})
        self.nonlocals = set()

    def lookup(self, name):
        e = self
        while e is not None:
            if name in e.vars:
                return e.vars[name].v
            e = e.parent
        if name in self.globs:
            return self.globs[name]
        import builtins
        if hasattr(builtins, name):
            return getattr(builtins, name)
        raise NameError(name)

    def assign(self, name, v):
        if name in self.nonlocals:
            e = self.parent
            while e is not None:
                if name in e.vars:
                    e.vars[name].v = v
                    return
                e = e.parent
            raise NameError(name)
        if name in self.vars:
            self.vars[name].v = v
        else:
            self.vars[name] = Cell(v)


class Closure:
    def __init__(self, node, env, globs):
        self.node = node
        self.env = env
        self.globs = globs


class Engine:
    def __init__(self, max_loop=64):
        self.solver = z3.Solver()
        self.decisions = []      # prefix to replay
        self.pos = 0
        self.trace = []          # decisions taken this run
        self.pending = []        # stack of prefixes
        self.max_loop = max_loop
        self.n_checks = 0
        self.t_solver = 0.0
        self.obligations = []    # width obligations (terms that must hold)

    # ---- forking
    def check(self, *assumps):
        t0 = time.time()
        r = self.solver.check(*assumps)
        self.t_solver += time.time() - t0
        self.n_checks += 1
        return r

    def branch(self, cond):
        """cond: z3 Bool. returns python bool, recording decision"""
        cond = z3.simplify(cond)
        if z3.is_true(cond):
            return True
        if z3.is_false(cond):
            return False
        if self.pos < len(self.decisions):
            d = self.decisions[self.pos]
            self.pos += 1
            self.trace.append(d)
            self.solver.add(cond if d else z3.Not(cond))
            return d
        can_t = self.check(cond) == z3.sat
        can_f = self.check(z3.Not(cond)) == z3.sat
        if can_t and can_f:
            self.pending.append(self.trace + [False])
            d = True
        elif can_t:
            d = True
        elif can_f:
            d = False
        else:
            raise Unsupported("infeasible path reached")
        self.pos += 1
        self.decisions.append(d)
        self.trace.append(d)
        self.solver.add(cond if d else z3.Not(cond))
        return d

    def truth(self, v):
        if isinstance(v, SBool):
            return self.branch(v.t)
        if isinstance(v, SI):
            return self.branch(v.t != 0)
        if isinstance(v, SBytes):
            return len(v.elems) > 0
        return bool(v)

    def explore(self, fn):
        """fn(engine) runs one path; yields (outcome, value, pc-model-solver-state)"""
        self.pending = [[]]
        results = []
        while self.pending:
            prefix = self.pending.pop()
            self.decisions = list(prefix)
            self.pos = 0
            self.trace = []
            self.solver.push()
            try:
                try:
                    v = fn(self)
                    out = ("ok", v)
                except PyRaise as e:
                    out = ("raise", e.exc_cls)
                yield out
            finally:
                self.solver.pop()

    # ---- calls
    def call_function(self, clo, args, kwargs=None):
        node = clo.node
        env = Env(parent=clo.env, globs=clo.globs)
        params = [a.arg for a in node.args.args]
        defaults = node.args.defaults
        for i, p in enumerate(params):
            if i < len(args):
                env.assign(p, args[i])
            elif kwargs and p in kwargs:
                env.assign(p, kwargs[p])
            else:
                di = i - (len(params) - len(defaults))
                env.assign(p, self.eval(defaults[di], clo.env))
        try:
            self.exec_block(node.body, env)
        except _Return as r:
            return r.v
        return None

    def load_pyfunc(self, f):
        src = textwrap.dedent(inspect.getsource(f))
        node = ast.parse(src).body[0]
        return Closure(node, Env(globs=f.__globals__), f.__globals__)

    # ---- statements
    def exec_block(self, stmts, env):
        for s in stmts:
            self.exec(s, env)

    def exec(self, s, env):
        m = getattr(self, "x_" + type(s).__name__, None)
        if m is None:
            raise Unsupported(f"stmt {type(s).__name__}")
        return m(s, env)

    def x_Expr(self, s, env):
        if isinstance(s.value, ast.Constant):
            return
        self.eval(s.value, env)

    def x_Pass(self, s, env):
        pass

    def x_Nonlocal(self, s, env):
        env.nonlocals.update(s.names)

    def x_FunctionDef(self, s, env):
        env.assign(s.name, Closure(s, env, env.globs))

    def x_Return(self, s, env):
        raise _Return(self.eval(s.value, env) if s.value else None)

    def x_Break(self, s, env):
        raise _Break()

    def x_Continue(self, s, env):
        raise _Continue()

    def x_Raise(self, s, env):
        exc = s.exc
        if isinstance(exc, ast.Call):
            cls = self.eval(exc.func, env)
        else:
            cls = self.eval(exc, env)
        raise PyRaise(cls)

    def x_Assert(self, s, env):
        if not self.truth(self.eval(s.test, env)):
            raise PyRaise(AssertionError)

    def x_Assign(self, s, env):
        v = self.eval(s.value, env)
        for t in s.targets:
            self.assign_target(t, v, env)

    def x_AnnAssign(self, s, env):
        if s.value is not None:
            self.assign_target(s.target, self.eval(s.value, env), env)

    def assign_target(self, t, v, env):
        if isinstance(t, ast.Name):
            env.assign(t.id, v)
        elif isinstance(t, (ast.Tuple, ast.List)):
            vs = list(v)
            if len(vs) != len(t.elts):
                raise PyRaise(ValueError)
            for tt, vv in zip(t.elts, vs):
                self.assign_target(tt, vv, env)
        elif isinstance(t, ast.Subscript):
            obj = self.eval(t.value, env)
            idx = self.eval(t.slice, env)
            if is_sym(idx):
                raise Unsupported("symbolic store index")
            if isinstance(obj, SBytes):
                obj.elems[idx] = v
            else:
                obj[idx] = v
        else:
            raise Unsupported(f"target {type(t).__name__}")

    def x_AugAssign(self, s, env):
        cur = self.eval(s.target, env)
        v = self.binop(s.op, cur, self.eval(s.value, env))
        self.assign_target(s.target, v, env)

    def x_If(self, s, env):
        if self.truth(self.eval(s.test, env)):
            self.exec_block(s.body, env)
        else:
            self.exec_block(s.orelse, env)

    def x_While(self, s, env):
        n = 0
        while self.truth(self.eval(s.test, env)):
            n += 1
            if n > self.max_loop:
                raise Unwind()
            try:
                self.exec_block(s.body, env)
            except _Break:
                return
            except _Continue:
                continue
        self.exec_block(s.orelse, env)

    def x_For(self, s, env):
        it = self.eval(s.iter, env)
        if isinstance(it, SBytes):
            it = list(it.elems)
        for v in it:
            self.assign_target(s.target, v, env)
            try:
                self.exec_block(s.body, env)
            except _Break:
                return
            except _Continue:
                continue
        self.exec_block(s.orelse, env)

    # ---- expressions
    def eval(self, e, env):
        m = getattr(self, "e_" + type(e).__name__, None)
        if m is None:
            raise Unsupported(f"expr {type(e).__name__}")
        return m(e, env)

    def e_Constant(self, e, env):
        return e.value

    def e_Name(self, e, env):
        return env.lookup(e.id)

    def e_Tuple(self, e, env):
        return tuple(self.eval(x, env) for x in e.elts)

    def e_List(self, e, env):
        return [self.eval(x, env) for x in e.elts]

    def e_JoinedStr(self, e, env):
        return "<fstring>"

    def e_IfExp(self, e, env):
        return self.eval(e.body, env) if self.truth(self.eval(e.test, env)) else self.eval(e.orelse, env)

    def e_BoolOp(self, e, env):
        if isinstance(e.op, ast.And):
            v = True
            for x in e.values:
                v = self.eval(x, env)
                if not self.truth(v):
                    return v
            return v
        else:
            v = False
            for x in e.values:
                v = self.eval(x, env)
                if self.truth(v):
                    return v
            return v

    def e_UnaryOp(self, e, env):
        v = self.eval(e.operand, env)
        if isinstance(e.op, ast.Not):
            if isinstance(v, SBool):
                return SBool(z3.Not(v.t))
            return not self.truth(v)
        if isinstance(e.op, ast.Invert):
            return SI(~bv(v)) if is_sym(v) else ~v
        if isinstance(e.op, ast.USub):
            return SI(-bv(v)) if is_sym(v) else -v
        raise Unsupported("unaryop")

    def e_BinOp(self, e, env):
        return self.binop(e.op, self.eval(e.left, env), self.eval(e.right, env))

    def binop(self, op, a, b):
        if isinstance(a, SBytes) or isinstance(b, SBytes):
            if isinstance(op, ast.Add):
                ae = a.elems if isinstance(a, SBytes) else list(a)
                be = b.elems if isinstance(b, SBytes) else list(b)
                return SBytes(ae + be, mutable=getattr(a, "mutable", False))
            raise Unsupported("bytes binop")
        if not is_sym(a) and not is_sym(b):
            import operator
            ops = {ast.Add: operator.add, ast.Sub: operator.sub, ast.Mult: operator.mul,
                   ast.BitAnd: operator.and_, ast.BitOr: operator.or_, ast.BitXor: operator.xor,
                   ast.LShift: operator.lshift, ast.RShift: operator.rshift,
                   ast.FloorDiv: operator.floordiv, ast.Mod: operator.mod}
            return ops[type(op)](a, b)
        x, y = bv(a), bv(b)
        if isinstance(op, ast.Add):
            r = x + y
        elif isinstance(op, ast.Sub):
            r = x - y
        elif isinstance(op, ast.Mult):
            r = x * y
        elif isinstance(op, ast.BitAnd):
            r = x & y
        elif isinstance(op, ast.BitOr):
            r = x | y
        elif isinstance(op, ast.BitXor):
            r = x ^ y
        elif isinstance(op, ast.LShift):
            # width obligation: no bits lost
            r = x << y
            self.obligations.append(z3.And(z3.ULT(y, W), (r >> y) == x))
        elif isinstance(op, ast.RShift):
            r = x >> y
        else:
            raise Unsupported(f"binop {type(op).__name__}")
        if isinstance(op, (ast.Add, ast.Sub)):
            if isinstance(op, ast.Add):
                self.obligations.append(z3.And(z3.BVAddNoOverflow(x, y, True), z3.BVAddNoUnderflow(x, y)))
            else:
                self.obligations.append(z3.And(z3.BVSubNoOverflow(x, y), z3.BVSubNoUnderflow(x, y, True)))
        return SI(r)

    def e_Compare(self, e, env):
        left = self.eval(e.left, env)
        res = None
        for op, rn in zip(e.ops, e.comparators):
            right = self.eval(rn, env)
            c = self.compare(op, left, right)
            if res is None:
                res = c
            else:
                res = self.and_(res, c)
            left = right
        return res

    def and_(self, a, b):
        if isinstance(a, SBool) or isinstance(b, SBool):
            ta = a.t if isinstance(a, SBool) else z3.BoolVal(bool(a))
            tb = b.t if isinstance(b, SBool) else z3.BoolVal(bool(b))
            return SBool(z3.And(ta, tb))
        return a and b

    def compare(self, op, a, b):
        if isinstance(a, SBytes) or isinstance(b, SBytes):
            ae = a.elems if isinstance(a, SBytes) else list(a)
            be = b.elems if isinstance(b, SBytes) else list(b)
            if isinstance(op, (ast.Eq, ast.NotEq)):
                if len(ae) != len(be):
                    r = False
                else:
                    r = SBool(z3.And([bv(x) == bv(y) for x, y in zip(ae, be)])) if ae else True
                if isinstance(op, ast.NotEq):
                    r = SBool(z3.Not(r.t)) if isinstance(r, SBool) else (not r)
                return r
            raise Unsupported("bytes compare")
        if not is_sym(a) and not is_sym(b):
            import operator
            ops = {ast.Eq: operator.eq, ast.NotEq: operator.ne, ast.Lt: operator.lt, ast.LtE: operator.le,
                   ast.Gt: operator.gt, ast.GtE: operator.ge, ast.Is: operator.is_, ast.IsNot: operator.is_not,
                   ast.In: lambda x, y: x in y, ast.NotIn: lambda x, y: x not in y}
            return ops[type(op)](a, b)
        if isinstance(op, (ast.Is, ast.IsNot)):
            return isinstance(op, ast.IsNot)
        x, y = bv(a), bv(b)
        t = {ast.Eq: lambda: x == y, ast.NotEq: lambda: x != y, ast.Lt: lambda: x < y,
             ast.LtE: lambda: x <= y, ast.Gt: lambda: x > y, ast.GtE: lambda: x >= y}[type(op)]()
        return SBool(t)

    def e_Subscript(self, e, env):
        obj = self.eval(e.value, env)
        if isinstance(e.slice, ast.Slice):
            lo = self.eval(e.slice.lower, env) if e.slice.lower else None
            hi = self.eval(e.slice.upper, env) if e.slice.upper else None
            lo = self.concretize(lo)
            hi = self.concretize(hi)
            if isinstance(obj, SBytes):
                return SBytes(obj.elems[lo:hi])
            return obj[lo:hi]
        idx = self.concretize(self.eval(e.slice, env))
        if isinstance(obj, SBytes):
            try:
                return obj.elems[idx]
            except IndexError:
                raise PyRaise(IndexError)
        return obj[idx]

    def concretize(self, v):
        """fork on the value of a symbolic int (small domains only)"""
        if not is_sym(v):
            return v
        t = bv(v)
        k = 0
        while True:
            if self.branch(t == k):
                return k
            k += 1
            if k > 64:
                raise Unsupported("concretize range")

    def e_Attribute(self, e, env):
        obj = self.eval(e.value, env)
        return ("<bound>", obj, e.attr) if isinstance(obj, (SBytes, list)) else getattr(obj, e.attr)

    def e_Call(self, e, env):
        f = self.eval(e.func, env)
        args = [self.eval(a, env) for a in e.args]
        kwargs = {k.arg: self.eval(k.value, env) for k in e.keywords}
        return self.call(f, args, kwargs)

    def call(self, f, args, kwargs):
        if isinstance(f, Closure):
            return self.call_function(f, args, kwargs)
        if isinstance(f, tuple) and f and f[0] == "<bound>":
            _, obj, name = f
            if isinstance(obj, list):
                if name == "append":
                    obj.append(args[0]); return None
                if name == "insert":
                    obj.insert(args[0], args[1]); return None
                if name == "extend":
                    obj.extend(args[0].elems if isinstance(args[0], SBytes) else args[0]); return None
            if isinstance(obj, SBytes):
                if name == "append":
                    obj.elems.append(args[0]); return None
            raise Unsupported(f"method {name}")
        if f is len:
            a = args[0]
            return len(a.elems) if isinstance(a, SBytes) else len(a)
        if f is ord:
            a = args[0]
            if isinstance(a, SBytes):
                if len(a.elems) != 1:
                    raise PyRaise(TypeError)
                return a.elems[0]
            return ord(a)
        if f is isinstance:
            a, t = args
            if isinstance(a, SBytes):
                ts = t if isinstance(t, tuple) else (t,)
                return (bytes in ts and not a.mutable) or (bytearray in ts and a.mutable)
            if isinstance(a, SI):
                return t is int or (isinstance(t, tuple) and int in t)
            return isinstance(a, t)
        if f is range:
            return range(*[self.concretize(a) for a in args])
        if f is bytes or f is bytearray:
            if not args:
                return SBytes([], mutable=f is bytearray)
            a = args[0]
            if isinstance(a, SBytes):
                return SBytes(a.elems, mutable=f is bytearray)
            if isinstance(a, list):
                return SBytes(a, mutable=f is bytearray)
            return f(a)
        if f is min or f is max:
            a, b = args
            if is_sym(a) or is_sym(b):
                c = self.truth(self.compare(ast.Lt() if f is min else ast.Gt(), a, b))
                return a if c else b
            return f(a, b)
        if f is enumerate:
            a = args[0]
            return list(enumerate(a.elems if isinstance(a, SBytes) else a))
        if f is list or f is tuple:
            a = args[0] if args else []
            return f(a.elems if isinstance(a, SBytes) else a)
        if f is map:
            return [self.call(args[0], [x], {}) for x in args[1]]
        if f is sum:
            tot = 0
            for x in args[0]:
                tot = self.binop(ast.Add(), tot, x)
            return tot
        if inspect.isfunction(f):
            return self.call_function(self.load_pyfunc(f), args, kwargs)
        if all(not is_sym(a) and not isinstance(a, SBytes) for a in args):
            return f(*args, **kwargs)
        raise Unsupported(f"call {f}")
