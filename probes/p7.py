import sys, os, tempfile, shutil
sys.modules['dulwich._pack'] = None
sys.modules['dulwich._objects'] = None
sys.modules['dulwich._diff_tree'] = None
from dulwich.refs import DiskRefsContainer
from typing import List

A = b"1"*40; B = b"2"*40; C = b"3"*40; ZERO = b"0"*40
VALS = [None, A, B]
CTR = 0
from crosshair.core import realize
from crosshair.tracers import NoTracing
R = b"refs/heads/m"

def mk(loose: int, packed: int):
    global CTR
    CTR += 1
    d = "/dev/shm/vfp7-%d-%d" % (os.getpid(), CTR)
    shutil.rmtree(d, ignore_errors=True)
    os.makedirs(os.path.join(d, "refs", "heads"))
    if packed:
        with open(os.path.join(d, "packed-refs"), "wb") as f:
            f.write(b"# pack-refs with: peeled fully-peeled sorted \n" + VALS[packed] + b" " + R + b"\n")
    if loose:
        with open(os.path.join(d, "refs", "heads", "m"), "wb") as f:
            f.write(VALS[loose] + b"\n")
    return d

def cas_disk(loose: int, packed: int, old_i: int, new_i: int) -> bool:
    """
    pre: 0 <= loose <= 2 and 0 <= packed <= 2
    pre: 0 <= old_i <= 4 and 1 <= new_i <= 2
    post: _
    """
    loose = realize(loose); packed = realize(packed); old_i = realize(old_i); new_i = realize(new_i)
    with NoTracing():
        return body(loose, packed, old_i, new_i)

def body(loose, packed, old_i, new_i):
    d = mk(loose, packed)
    try:
        c = DiskRefsContainer(d)
        cur = VALS[loose] if loose else VALS[packed]
        old = [None, A, B, C, ZERO][old_i]
        ok = c.set_if_equals(R, old, VALS[new_i])
        expect = old is None or (cur if cur is not None else ZERO) == old
        c2 = DiskRefsContainer(d)
        try:
            final = c2[R]
        except KeyError:
            final = None
        want = VALS[new_i] if expect else cur
        return ok == expect and final == want
    finally:
        shutil.rmtree(d)
