import sys
sys.modules['dulwich._pack'] = None
sys.modules['dulwich._objects'] = None
sys.modules['dulwich._diff_tree'] = None
from dulwich.graph import _find_lcas
from typing import List

N = 4
IDS = [bytes([48+i])*40 for i in range(N)]

def ref_lcas(par, a, b):
    def anc(x):
        seen = set(); st=[x]
        while st:
            y = st.pop()
            if y in seen: continue
            seen.add(y); st.extend(par[y])
        return seen
    common = anc(a) & anc(b)
    res = set()
    for c in common:
        # c is maximal if no other common d has c as proper ancestor
        if not any(d != c and c in anc(d) for d in common):
            res.add(c)
    return res

def lca_ok(edges: List[bool], ts: List[int], a: int, b: int) -> bool:
    """
    pre: len(edges) == 6 and len(ts) == 4
    pre: 0 <= a < 4 and 0 <= b < 4 and a != b
    pre: all(0 <= t < 100 for t in ts)
    post: _
    """
    par = {i: [] for i in range(N)}
    k = 0
    for j in range(N):
        for i in range(j):
            if edges[k]:
                par[j].append(i)
            k += 1
    got = _find_lcas(lambda c: [IDS[p] for p in par[IDS.index(c)]], IDS[a], [IDS[b]], lambda c: ts[IDS.index(c)])
    want = ref_lcas(par, a, b)
    return set(got) == {IDS[w] for w in want}
