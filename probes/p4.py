import sys, types, io, os as real_os
sys.modules['dulwich._pack'] = None
sys.modules['dulwich._objects'] = None
sys.modules['dulwich._diff_tree'] = None
import dulwich.file as df
from typing import List

class Crash(BaseException):
    pass

class MemFile(io.BytesIO):
    def __init__(self, fs, path):
        super().__init__()
        self.fs = fs; self.path = path; self._fd = 1000
    def fileno(self): return self._fd
    def flush(self):
        self.fs.step('flush')
        if self.fs.files.get(self.path) is not None and self.fs.inode.get(self.path) is self:
            self.fs.files[self.path] = self.getvalue()
    def close(self):
        if not self.closed:
            self.flush()
        super().close()

class FS:
    """In-memory FS + interference by another well-behaved locker ('other')."""
    def __init__(self, choices, target_content, lock_held_by_other):
        self.files = {}
        self.inode = {}
        self.choices = list(choices)
        self.ci = 0
        self.owner = None      # ghost: who owns T.lock: None/'me'/'other'
        self.violations = []
        self.files['T'] = target_content
        if lock_held_by_other:
            self.files['T.lock'] = b'other'
            self.owner = 'other'
    def choice(self):
        if self.ci < len(self.choices):
            c = self.choices[self.ci]; self.ci += 1
            return c
        return 0
    def step(self, what):
        # environment interference before each syscall of 'me'
        c = self.choice()
        if c == 1 and 'T.lock' not in self.files:
            self.files['T.lock'] = b'other'; self.owner = 'other'     # other acquires
        elif c == 2 and self.owner == 'other':
            self.files['T'] = self.files.pop('T.lock'); self.owner = None   # other commits
        elif c == 3 and self.owner == 'other':
            self.files.pop('T.lock'); self.owner = None    # other aborts
    # syscalls
    def open(self, path, flags, mode=0o777):
        self.step('open')
        if path in self.files:
            raise FileExistsError(path)
        self.files[path] = b''
        if path == 'T.lock':
            self.owner = 'me'
        return path
    def fdopen(self, fd, mode, bufsize):
        f = MemFile(self, fd)
        self.inode[fd] = f
        return f
    def fsync(self, fd):
        self.step('fsync')
    def replace(self, a, b):
        self.step('replace')
        if a not in self.files:
            raise FileNotFoundError(a)
        if a == 'T.lock' and self.owner != 'me':
            self.violations.append('replace of lock not owned')
        self.files[b] = self.files.pop(a)
        if a == 'T.lock':
            self.owner = None
    def remove(self, a):
        self.step('remove')
        if a not in self.files:
            raise FileNotFoundError(a)
        if a == 'T.lock' and self.owner != 'me':
            self.violations.append('remove of lock not owned')
        self.files.pop(a)
        if a == 'T.lock':
            self.owner = None

def make_os(fs):
    ns = types.SimpleNamespace()
    for k in dir(real_os):
        if not k.startswith('__'):
            setattr(ns, k, getattr(real_os, k))
    ns.open = fs.open; ns.fdopen = fs.fdopen; ns.fsync = fs.fsync
    ns.replace = fs.replace; ns.remove = fs.remove
    return ns

def lock_protocol(choices: List[int], other_holds: bool, do_abort: bool) -> bool:
    """
    pre: len(choices) == 8
    pre: all(0 <= c <= 3 for c in choices)
    post: _
    """
    fs = FS(choices, b'old', other_holds)
    saved = df.os
    df.os = make_os(fs)
    try:
        try:
            f = df._GitFile('T', 'wb', -1, 0o644)
        except df.FileLocked:
            return not fs.violations
        f.write(b'new')
        if do_abort:
            f.abort()
        else:
            f.close()
        return not fs.violations
    finally:
        df.os = saved
