import sys, types, io, os as real_os
sys.modules['dulwich._pack'] = None
sys.modules['dulwich._objects'] = None
sys.modules['dulwich._diff_tree'] = None
import dulwich.file as df
from typing import List
from greenlet import greenlet

class MemFile(io.BytesIO):
    def __init__(self, fs, path):
        super().__init__()
        self.fs = fs; self.path = path
    def fileno(self): return 1000
    def flush(self):
        self.fs.sched('flush')
        if self.fs.inode.get(self.path) is self and self.path in self.fs.files:
            self.fs.files[self.path] = self.getvalue()
    def close(self):
        if not self.closed:
            self.flush()
        super().close()

class FS:
    def __init__(self, choices):
        self.files = {'T': b'old'}
        self.inode = {}
        self.choices = list(choices); self.ci = 0
        self.owner = None
        self.violations = []
        self.actors = []
        self.main = None
        self.cur = None
    def sched(self, what):
        # yield to scheduler
        self.main.switch()
    def me(self):
        return self.cur
    def open(self, path, flags, mode=0o777):
        self.sched('open')
        if path in self.files:
            raise FileExistsError(path)
        self.files[path] = b''
        self.owner = self.me()
        return path
    def fdopen(self, fd, mode, bufsize):
        f = MemFile(self, fd); self.inode[fd] = f; return f
    def fsync(self, fd): self.sched('fsync')
    def replace(self, a, b):
        self.sched('replace')
        if a not in self.files: raise FileNotFoundError(a)
        if self.owner != self.me(): self.violations.append('replace not owned')
        self.files[b] = self.files.pop(a); self.owner = None
    def remove(self, a):
        self.sched('remove')
        if a not in self.files: raise FileNotFoundError(a)
        if self.owner != self.me(): self.violations.append('remove not owned')
        self.files.pop(a); self.owner = None

def make_os(fs):
    ns = types.SimpleNamespace()
    for k in dir(real_os):
        if not k.startswith('__'):
            setattr(ns, k, getattr(real_os, k))
    ns.open = fs.open; ns.fdopen = fs.fdopen; ns.fsync = fs.fsync
    ns.replace = fs.replace; ns.remove = fs.remove
    return ns

def actor(fs, i, results):
    try:
        f = df._GitFile('T', 'wb', -1, 0o644)
    except df.FileLocked:
        results[i] = 'locked'; return
    f.write(b'new%d' % i)
    f.close()
    results[i] = 'ok'

def two_actors(choices: List[int]) -> bool:
    """
    pre: len(choices) == 14
    pre: all(0 <= c <= 1 for c in choices)
    post: _
    """
    fs = FS(choices)
    saved = df.os
    df.os = make_os(fs)
    try:
        results = {}
        fs.main = greenlet.getcurrent()
        gs = [greenlet(lambda i=i: actor(fs, i, results)) for i in range(2)]
        k = 0
        while any(not g.dead for g in gs):
            c = choices[k] if k < len(choices) else 0
            k += 1
            live = [i for i, g in enumerate(gs) if not g.dead]
            i = live[c % len(live)] if True else 0
            fs.cur = i
            gs[i].switch()
        return not fs.violations
    finally:
        df.os = saved
