"""Throwaway probe for E3: symbolic execution of rustc MIR text (two leaf fns of crates/pack)."""
import re, sys, time
import z3

WIDTH = {"u8": 8, "u32": 32, "i32": 32, "usize": 64, "u64": 64, "i64": 64, "isize": 64}
SIGNED = {"i32", "i64", "isize"}


class Panic(Exception):
    def __init__(self, msg):
        self.msg = msg


class Unsupported(Exception):
    pass


class Ref:
    def __init__(self, get, set_):
        self.get, self.set = get, set_


class Adt:
    def __init__(self, name, fields):
        self.name, self.fields = name, fields

    def __repr__(self):
        return f"{self.name}{self.fields}"


def parse_fn(mir, name):
    m = re.search(r"^fn " + re.escape(name) + r"\((.*?)\) -> (.*?) \{\n(.*?)^\}", mir, re.S | re.M)
    if not m:
        raise KeyError(name)
    params = []
    for p in re.finditer(r"(_\d+): ([^,]+(?:<[^>]*>)?[^,]*)", m.group(1)):
        params.append((p.group(1), p.group(2).strip()))
    body = m.group(3)
    types = dict(params)
    for l in re.finditer(r"let (?:mut )?(_\d+): (.*?);", body):
        types[l.group(1)] = l.group(2).strip()
    blocks = {}
    for b in re.finditer(r"^    (bb\d+)(?: \(cleanup\))?: \{\n(.*?)^    \}", body, re.S | re.M):
        stmts = [s.strip() for s in b.group(2).strip().split(";\n") if s.strip()]
        stmts = [s[:-1] if s.endswith(";") else s for s in stmts]
        blocks[b.group(1)] = stmts
    return params, types, blocks


class Mir:
    def __init__(self, mir_text):
        self.mir = mir_text
        self.fns = {}
        self.solver = z3.Solver()
        self.decisions, self.pos, self.trace, self.pending = [], 0, [], []
        self.n_checks = 0

    def fn(self, name):
        if name not in self.fns:
            self.fns[name] = parse_fn(self.mir, name)
        return self.fns[name]

    # --- forking (decision-prefix replay)
    def branch(self, cond):
        cond = z3.simplify(cond)
        if z3.is_true(cond):
            return True
        if z3.is_false(cond):
            return False
        if self.pos < len(self.decisions):
            d = self.decisions[self.pos]
        else:
            self.n_checks += 2
            ct = self.solver.check(cond) == z3.sat
            cf = self.solver.check(z3.Not(cond)) == z3.sat
            if ct and cf:
                self.pending.append(self.trace + [False])
            d = ct
            self.decisions.append(d)
        self.pos += 1
        self.trace.append(d)
        self.solver.add(cond if d else z3.Not(cond))
        return d

    def explore(self, run):
        self.pending = [[]]
        while self.pending:
            self.decisions = list(self.pending.pop())
            self.pos, self.trace = 0, []
            self.solver.push()
            try:
                try:
                    yield ("ok", run())
                except Panic as p:
                    yield ("panic", p.msg)
            finally:
                self.solver.pop()

    # --- interpretation
    def call(self, name, args):
        params, types, blocks = self.fn(name)
        L = {}
        for (p, _), a in zip(params, args):
            L[p] = a
        bb = "bb0"
        steps = 0
        while True:
            steps += 1
            if steps > 400:
                raise Unsupported("unwind bound")
            stmts = blocks[bb]
            for s in stmts[:-1]:
                self.stmt(s, L, types)
            t = stmts[-1]
            if t == "return":
                return L.get("_0")
            m = re.match(r"goto -> (bb\d+)", t)
            if m:
                bb = m.group(1); continue
            m = re.match(r"switchInt\((.*?)\) -> \[(.*)\]", t)
            if m:
                v = self.operand(m.group(1), L, types)
                targets = [x.strip() for x in m.group(2).split(",")]
                nxt = None
                for tg in targets:
                    k, b = [y.strip() for y in tg.split(":")]
                    if k == "otherwise":
                        nxt = b; break
                    kv = int(k)
                    c = (v if kv else z3.Not(v)) if z3.is_bool(v) else (v == kv)
                    if self.branch(c):
                        nxt = b; break
                bb = nxt; continue
            m = re.match(r'assert\((!?)(.*?), "(.*?)".*\) -> \[success: (bb\d+)', t)
            if m:
                c = self.operand(m.group(2), L, types)
                if m.group(1):
                    c = z3.Not(c)
                if self.branch(c):
                    bb = m.group(4); continue
                raise Panic(m.group(3))
            m = re.match(r"(.*?) = (.*?)\((.*)\) -> \[return: (bb\d+)", t)
            if m:
                dst, f, a, nb = m.groups()
                args_ = [self.operand(x.strip(), L, types) for x in split_args(a)] if a.strip() else []
                self.store(dst, self.libcall(f, args_), L, types)
                bb = nb; continue
            raise Unsupported("terminator: " + t)

    def libcall(self, f, args):
        if f == "Vec::<u8>::new":
            return []
        if f == "Vec::<u8>::push":
            args[0].get().append(args[1]); return ()
        raise Unsupported("call " + f)

    def stmt(self, s, L, types):
        dst, rv = s.split(" = ", 1)
        self.store(dst.strip(), self.rvalue(rv.strip(), L, types, dst.strip()), L, types)

    def place_ref(self, p, L, types):
        p = p.strip()
        m = re.fullmatch(r"_\d+", p)
        if m:
            return Ref(lambda: L[p], lambda v: L.__setitem__(p, v))
        m = re.fullmatch(r"\(\*(_\d+)\)", p)
        if m:
            return L[m.group(1)]
        m = re.fullmatch(r"\(\*(_\d+)\)\[(_\d+)\]", p)
        if m:
            base, idx = L[m.group(1)], L[m.group(2)]
            def get():
                arr = base.get() if isinstance(base, Ref) else base
                # idx already bounds-asserted by MIR; select by ite chain
                r = arr[-1]
                for k in range(len(arr) - 2, -1, -1):
                    r = z3.If(idx == k, arr[k], r)
                return r
            return Ref(get, None)
        m = re.fullmatch(r"\((_\d+)\.(\d+): .*\)", p)
        if m:
            return Ref(lambda: L[m.group(1)][int(m.group(2))], None)
        raise Unsupported("place " + p)

    def store(self, dst, v, L, types):
        self.place_ref(dst, L, types).set(v)

    def operand(self, o, L, types):
        o = o.strip()
        if o.startswith("copy ") or o.startswith("move "):
            return self.place_ref(o[5:], L, types).get()
        m = re.fullmatch(r"const (-?\d+)_(\w+)", o)
        if m:
            return z3.BitVecVal(int(m.group(1)), WIDTH[m.group(2)])
        if o in ("const true", "const false"):
            return z3.BoolVal(o == "const true")
        if o.startswith('const "'):
            return o
        raise Unsupported("operand " + o)

    def rvalue(self, rv, L, types, dst):
        m = re.fullmatch(r"(\w+)\((.*)\)", rv)
        if m and m.group(1) in ("BitAnd", "BitOr", "Shl", "Shr", "Add", "Sub", "Lt", "Le", "Gt", "Ge", "Eq", "Ne",
                                "AddWithOverflow", "SubWithOverflow", "Not", "PtrMetadata"):
            op = m.group(1)
            a = [self.operand(x, L, types) for x in split_args(m.group(2))]
            if op == "Not":
                return z3.Not(a[0]) if z3.is_bool(a[0]) else ~a[0]
            if op == "PtrMetadata":
                return z3.BitVecVal(len(a[0]), 64)
            x, y = a
            if op in ("Shl", "Shr") and x.size() != y.size():
                y = z3.ZeroExt(x.size() - y.size(), y) if y.size() < x.size() else z3.Extract(x.size() - 1, 0, y)
            if op == "BitAnd": return x & y
            if op == "BitOr": return x | y
            if op == "Shl": return x << y
            if op == "Shr": return z3.LShR(x, y)
            if op == "Add": return x + y
            if op == "Sub": return x - y
            if op == "Lt": return z3.ULT(x, y)
            if op == "Le": return z3.ULE(x, y)
            if op == "Gt": return z3.UGT(x, y)
            if op == "Ge": return z3.UGE(x, y)
            if op == "Eq": return x == y
            if op == "Ne": return x != y
            if op == "AddWithOverflow":
                return [x + y, z3.Not(z3.BVAddNoOverflow(x, y, False))]
            if op == "SubWithOverflow":
                return [x - y, z3.Not(z3.BVSubNoUnderflow(x, y, False))]
        m = re.fullmatch(r"(.*) as (\w+) \(IntToInt\)", rv)
        if m:
            v = self.operand(m.group(1), L, types)
            w = WIDTH[m.group(2)]
            if v.size() == w: return v
            return z3.ZeroExt(w - v.size(), v) if v.size() < w else z3.Extract(w - 1, 0, v)
        m = re.fullmatch(r"&(?:mut )?(_\d+)", rv)
        if m:
            n = m.group(1)
            return Ref(lambda: L[n], lambda v: L.__setitem__(n, v))
        m = re.fullmatch(r"(\w+)::<.*>::(\w+)\((.*)\)", rv)
        if m:
            return Adt(m.group(1) + "::" + m.group(2), [self.operand(x, L, types) for x in split_args(m.group(3))])
        return self.operand(rv, L, types)


def split_args(s):
    out, depth, cur = [], 0, ""
    for ch in s:
        if ch in "([<":
            depth += 1
        elif ch in ")]>":
            depth -= 1
        if ch == "," and depth == 0:
            out.append(cur.strip()); cur = ""
        else:
            cur += ch
    if cur.strip():
        out.append(cur.strip())
    return out


if __name__ == "__main__":
    mir = open("/tmp/mirprobe/pack.mir").read()
    # 1. round trip: get_delta_header_size(delta_encode_size(n)) == n for all usize n, no panic
    M = Mir(mir)
    n = z3.BitVec("n", 64)
    t0 = time.time(); paths = 0; bad = 0

    def run():
        enc = M.call("delta_encode_size", [n])
        cell = [z3.BitVecVal(0, 64)]
        idx = Ref(lambda: cell[0], lambda v: cell.__setitem__(0, v))
        r = M.call("get_delta_header_size", [enc, idx, z3.BitVecVal(len(enc), 64)])
        return enc, r, cell[0]
    for kind, v in M.explore(run):
        paths += 1
        if kind == "panic":
            bad += 1
            M.solver.check(); print("  PANIC:", v, "n =", M.solver.model()[n])
        else:
            enc, r, idx = v
            ok = z3.And(r.fields[0] == n, idx == len(enc)) if r.name == "Result::Ok" else z3.BoolVal(False)
            if M.solver.check(z3.Not(ok)) != z3.unsat:
                bad += 1; print("  MISMATCH", M.solver.model())
    print(f"roundtrip all usize: paths={paths} bad={bad} checks={M.n_checks} wall={time.time()-t0:.2f}s")

    # 2. decoder on arbitrary 12 bytes: any panic edge reachable?
    M = Mir(mir)
    N = 12
    d = [z3.BitVec(f"d{i}", 8) for i in range(N)]
    t0 = time.time(); paths = 0; panics = 0

    def run2():
        cell = [z3.BitVecVal(0, 64)]
        idx = Ref(lambda: cell[0], lambda v: cell.__setitem__(0, v))
        return M.call("get_delta_header_size", [d, idx, z3.BitVecVal(N, 64)])
    for kind, v in M.explore(run2):
        paths += 1
        if kind == "panic":
            panics += 1
            M.solver.check(); mdl = M.solver.model()
            print("  PANIC:", v, "delta =", bytes(mdl.eval(x, model_completion=True).as_long() for x in d).hex())
    print(f"decoder on all 12-byte inputs: paths={paths} panics={panics} checks={M.n_checks} wall={time.time()-t0:.2f}s")
