import sys
sys.modules['dulwich._pack'] = None
sys.modules['dulwich._objects'] = None
sys.modules['dulwich._diff_tree'] = None
from dulwich.protocol import pkt_line, _parse_pkt_line_length, PktLineParser
from dulwich.errors import GitProtocolError

def rt_len(data: bytes) -> bool:
    """
    pre: len(data) <= 6
    post: _
    """
    enc = pkt_line(data)
    return _parse_pkt_line_length(enc[:4]) == len(data) + 4 and enc[4:] == data

def parse_any(prefix: bytes) -> int:
    """
    pre: len(prefix) == 4
    post: 0 <= _ <= 65535
    raises: GitProtocolError
    """
    return _parse_pkt_line_length(prefix)

def parser_any(buf: bytes) -> bool:
    """
    pre: len(buf) <= 6
    post: _
    raises: GitProtocolError
    """
    out = []
    p = PktLineParser(out.append)
    p.parse(buf)
    tail = p.get_tail()
    # reassemble
    re = b"".join(pkt_line(x) for x in out) + tail
    return len(re) == len(buf)
