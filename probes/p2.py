import sys
sys.modules['dulwich._pack'] = None
sys.modules['dulwich._objects'] = None
sys.modules['dulwich._diff_tree'] = None
from dulwich.pack import pack_object_header, _decode_object_header, _decode_delta_base_offset, _delta_encode_size, apply_delta, OFS_DELTA, _encode_copy_operation
from dulwich.object_format import DEFAULT_OBJECT_FORMAT
from dulwich.errors import ApplyDeltaError

def take_msb(raw, pos):
    out = []
    while True:
        b = raw[pos]; pos += 1
        out.append(b)
        if not b & 0x80:
            return out, pos

def hdr_rt(type_num: int, size: int) -> bool:
    """
    pre: 1 <= type_num <= 4
    pre: 0 <= size < 2**40
    post: _
    """
    h = pack_object_header(type_num, None, size, DEFAULT_OBJECT_FORMAT)
    raw, pos = take_msb(list(h), 0)
    t, s = _decode_object_header(raw)
    return t == type_num and s == size and pos == len(h)

def ofs_rt(size: int, ofs: int) -> bool:
    """
    pre: 0 <= size < 16
    pre: 1 <= ofs < 2**40
    post: _
    """
    h = pack_object_header(OFS_DELTA, ofs, size, DEFAULT_OBJECT_FORMAT)
    raw, pos = take_msb(list(h), 0)
    raw2, pos2 = take_msb(list(h), pos)
    return _decode_delta_base_offset(raw2) == ofs and pos2 == len(h)

def apply_any(delta: bytes) -> bool:
    """
    pre: len(delta) <= 5
    post: _
    raises: ApplyDeltaError
    """
    src = b"abcdefgh"
    out = b"".join(apply_delta(src, delta))
    return True
