#!/verif/.venv/bin/python
"""Oracle validation (not a deciding step): compare the reference models that the symbolic checks
use for "what C git does" with the installed git binary on random and boundary inputs."""
import os, random, subprocess, sys, tempfile, shutil
sys.path.insert(0, "/verif"); sys.path.insert(0, "/repo")
for ext in ("dulwich._pack", "dulwich._objects", "dulwich._diff_tree"):
    sys.modules[ext] = None
random.seed(int(os.environ.get("VERIF_SEED", "0")))
bad = 0

# ---- check-ref-format
from vf.props.C16 import ref_check_ref_format
alpha = b"a/.@{lock~^:?*[\\ \x7f\x1f\x01-Z"
names = [bytes(random.choice(alpha) for _ in range(random.randint(1, 9))) for _ in range(3000)]
names += [b"a/b.lock", b"a.lock/b", b"a/b.lockx", b"@", b"a/@", b"a/b@{", b"heads/a\x1fb", b"a//b", b"/a/b", b"a/b/", b"a/b."]
for n in names:
    if b"\0" in n or b"\n" in n:
        continue
    r = subprocess.run(["git", "check-ref-format", n], capture_output=True)
    git_ok = r.returncode == 0
    ref_ok = bool(ref_check_ref_format(list(n)))
    if git_ok != ref_ok:
        bad += 1
        print("check-ref-format MISMATCH", n, "git", git_ok, "ref", ref_ok)
print("check-ref-format: compared", len(names))

# ---- config value writer/reader
from vf.props.C20 import ref_git_parse_value, ref_git_write_value
d = tempfile.mkdtemp(prefix="vgm")
try:
    alpha = b" \t\"\\#;\n\rntb\x0b\x0cxy="
    vals = [bytes(random.choice(alpha) for _ in range(random.randint(0, 5))) for _ in range(600)]
    for v in vals:
        p = os.path.join(d, "cfg")
        if os.path.exists(p):
            os.remove(p)
        # writer
        r = subprocess.run(["git", "config", "--file", p, "s.k", v], capture_output=True)
        if r.returncode != 0:
            continue
        data = open(p, "rb").read()
        line = data.split(b"\n", 1)[1]
        assert line.startswith(b"\tk = "), line
        written = line[len(b"\tk = "):-1] if line.endswith(b"\n") else line[len(b"\tk = "):]
        ref_w = bytes(ref_git_write_value(list(v)))
        if written != ref_w:
            bad += 1
            print("write_pair MISMATCH", v, written, ref_w)
        # reader on arbitrary text
        txt = bytes(random.choice(alpha) for _ in range(random.randint(0, 6))).replace(b"\n", b"")
        open(p, "wb").write(b"[s]\n\tk =" + txt + b"\n")
        r = subprocess.run(["git", "config", "--file", p, "--null", "--get", "s.k"], capture_output=True)
        git_v = r.stdout[:-1] if r.returncode == 0 else None
        ref_v = ref_git_parse_value(list(txt) + [10])
        ref_v = bytes(ref_v) if ref_v is not None else None
        if git_v != ref_v:
            bad += 1
            print("parse_value MISMATCH", txt, git_v, ref_v)
    print("config: compared", len(vals))
finally:
    shutil.rmtree(d)
print("mismatches:", bad)
sys.exit(1 if bad else 0)
