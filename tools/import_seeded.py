#!/usr/bin/env python3
"""import_seeded.py <PROP> <K>: copy a validated sub-agent change from /tmp/wt/out/<PROP>/m<K> to /verif/seeded/<PROP>_m<K>."""
import json, os, shutil, sys
P, K = sys.argv[1], sys.argv[2]
src = f"/tmp/wt/out/{P}/m{K}"
v = json.load(open(f"{src}/validation.json"))
ok = v.get("applies") == 1 and v["demo_with_change_rc"] not in ("0", "NA", "124") and v["suite_rc"] == "0" and v["demo_without_change_rc"] == "0"
if not ok:
    print("NOT VALID", P, K, v)
    sys.exit(1)
dst = f"/verif/seeded/{P}_m{K}"
os.makedirs(dst, exist_ok=True)
shutil.copy(f"{src}/patch.diff", dst)
demo = [f for f in ("demo.py", "test_demo.py") if os.path.exists(f"{src}/{f}")][0]
shutil.copy(f"{src}/{demo}", dst)
readme = open(f"{src}/README.md").read() if os.path.exists(f"{src}/README.md") else ""
meta = {"property": P, "id": f"{P}_m{K}", "round": 4,
        "source": "independent sub-agent given only the property text and a scratch worktree",
        "needs_to_manifest": " ".join(readme.split())[:1500],
        "confirmed_by_me": {"how": "tools/validate_mutant.sh in a scratch worktree of /repo HEAD: git apply; demo with change; full pinned suite with change; demo without change",
                            "applies": True, "demo_with_change_rc": v["demo_with_change_rc"], "suite": v["suite_tail"],
                            "demo_without_change_rc": v["demo_without_change_rc"]}}
json.dump(meta, open(f"{dst}/meta.json", "w"), indent=1)
print("imported", dst)
