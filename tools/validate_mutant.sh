#!/bin/bash
# validate_mutant.sh <PROP> <K>: confirm a sub-agent's change in a scratch worktree of /repo's HEAD:
# applies, demo fails with it, the pinned suite still passes with it, demo passes without it.
P=$1; K=$2
SRC=/tmp/wt/out/$P/m$K
WT=/tmp/mv/${P}_m$K
OUT=$SRC/validation.json
mkdir -p /tmp/mv
git -C /repo worktree remove --force $WT >/dev/null 2>&1
git -C /repo worktree add --detach $WT HEAD >/dev/null 2>&1 || { echo "{\"error\":\"worktree\"}" > $OUT; exit 1; }
cp /repo/dulwich/*.so $WT/dulwich/
DEMO=$(ls $SRC/demo.py $SRC/test_demo.py 2>/dev/null | head -1)
cd $WT
applies=0; git apply $SRC/patch.diff 2>/tmp/mv/${P}_m$K.applyerr && applies=1
demo_with=NA; suite=NA; demo_without=NA
if [ $applies = 1 ]; then
  timeout 600 /venv/bin/python $DEMO >/tmp/mv/${P}_m$K.with.log 2>&1; demo_with=$?
  /verif/tools/run_suite.sh $WT >/tmp/mv/${P}_m$K.suite.log 2>&1; suite=$?
  git checkout -- . ; git clean -fdq -e 'dulwich/*.so'
  timeout 600 /venv/bin/python $DEMO >/tmp/mv/${P}_m$K.without.log 2>&1; demo_without=$?
fi
cd /
git -C /repo worktree remove --force $WT >/dev/null 2>&1
echo "{\"prop\":\"$P\",\"k\":$K,\"applies\":$applies,\"demo_with_change_rc\":\"$demo_with\",\"suite_rc\":\"$suite\",\"demo_without_change_rc\":\"$demo_without\",\"suite_tail\":\"$(tail -1 /tmp/mv/${P}_m$K.suite.log 2>/dev/null | tr -d '\"')\"}" > $OUT
cat $OUT
