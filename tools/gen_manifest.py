#!/usr/bin/env python3
"""Regenerate /verif/MANIFEST.json from the table below (kept valid at all times)."""
import json
import os

HERE = os.path.dirname(os.path.dirname(os.path.abspath(__file__)))

# property -> (technique, level text, level note)   -- only properties with a working check
CLAIMED = {
    "C02": (
        "bounded symbolic execution of the real pack kernels (ksym: instrumented source on z3 bit-vectors), solver-decided round-trip assertions",
        "For every object type and every size / OFS offset below 2^63 the real header encoder and decoders are mutual inverses and produce git's canonical length; the offset decoder is total on every varint of <= 4 bytes; bisect_find_sha is exact on every sorted table of <= 5 first-byte-distinguished names. Decided by z3 over all values in those bounds, per path of the real code; nothing is claimed outside them (zlib payloads, index files, delta chains are outside this check so far).",
        "Trusted: z3, the ksym proxies/models (translator-validated against native CPython on pinned vectors every run), CPython. Python ints are 128-bit bit-vectors with discharged width obligations.",
    ),
}

NOT_YET = "check not built yet in this round (planned in DESIGN.md section 4); no claim is made"


def main():
    props = [json.loads(l) for l in open(os.path.join(HERE, "properties.jsonl"))]
    checks = []
    na = []
    for p in props:
        pid = p["id"]
        if pid in CLAIMED:
            tech, text, note = CLAIMED[pid]
            checks.append({
                "property_id": pid,
                "quick_cmd": f"./check {pid} --tier quick",
                "thorough_cmd": f"./check {pid} --tier thorough",
                "evidence_file": f"/verif/evidence/{pid}.json",
                "replay_cmd_template": f"./check {pid} --replay {{path}}",
                "engine": "vf",
                "level_claimed": {"category": "other", "text": text, "design_ref": f"DESIGN.md section 4 {pid}"},
                "level_note": note,
                "technique": tech,
            })
        else:
            na.append({"property_id": pid, "reason": NA.get(pid, NOT_YET)})
    man = {
        "version": 1,
        "setup_cmd": "./setup.sh",
        "hooks": {
            "guard": "DULWICH_VERIF",
            "enable": "no source hooks: all instrumentation is applied from /verif at import time (AST rewriting import hook, os/open interposition)",
            "baseline_off_cmd": "cd /repo && /venv/bin/python -m pytest -ra -q -p no:cacheprovider --timeout=900 --continue-on-collection-errors",
            "source_commits": [],
            "add_only": True,
        },
        "engines": [
            {"name": "E2-ksym", "path": "vf/ksym", "serves_properties": sorted(CLAIMED),
             "kind_free_text": "own symbolic executor: real dulwich source instrumented at import, ints as z3 bit-vectors with width obligations, decision-prefix path forking, native replay of counterexamples"},
            {"name": "E1-crosshair", "path": "vf/xh.py", "serves_properties": [],
             "kind_free_text": "CrossHair 0.0.110 symbolic execution of harnesses that call the real classes"},
        ],
        "checks": checks,
        "not_applicable": na,
        "notes": "exit 0 = every obligation discharged within the stated bounds; 1 = natively reproduced counterexample (VIOLATION line); 2 = inconclusive (unsupported construct, solver unknown, unwinding/width obligation failed, non-reproducing counterexample)",
    }
    with open(os.path.join(HERE, "MANIFEST.json"), "w") as f:
        json.dump(man, f, indent=1)
    print("claimed:", [c["property_id"] for c in checks], "n/a:", len(na))


NA = {}

if __name__ == "__main__":
    main()
