#!/usr/bin/env python3
"""Regenerate /verif/MANIFEST.json from the table below (kept valid at all times)."""
import json
import os

HERE = os.path.dirname(os.path.dirname(os.path.abspath(__file__)))

# property -> (technique, level text, level note)   -- only properties with a working check
CLAIMED = {
    "C01": (
        "bounded symbolic execution of the real object (de)serialisation code (ksym): symbolic field bytes/ints for the kernels, solver-forked setter histories for the cache-invalidation clause",
        "Timezones: format/parse are mutual inverses on every whole-minute offset within +-100 h and on all 20 000 [+-]HHMM spellings incl. -0000; identity/time/zone lines round-trip for symbolic identities and times (|t|<=10^5 quick, 2^62 thorough); every pair of tree entries (names of 1..3 symbolic bytes, any 16-bit mode) is ordered as git's base_name_compare; parse_tree(serialize_tree) is the identity for symbolic names and modes; folded multi-line headers and bodies survive _format_message/_parse_message; for every history of 2-3 setter calls / id reads on live Commit, Tag, Tree and Blob objects the bytes equal a fresh serialisation and the name is the SHA-1 and SHA-256 of header+content; a parsed commit re-serialises byte-identically and changing one field leaves every other byte unchanged. One genuine defect (stale Blob id) was repaired. Git-identity of whole objects is only claimed through the reference order/format models.",
        "Trusted: z3, ksym (decimal rendering as a definitional extension, exact-rational model of int(x/100) under a discharged |x|<2^53 obligation), hashlib (used as the oracle on concrete bytes), the base_name_compare reference.",
    ),
    "C02": (
        "bounded symbolic execution of the real pack kernels (ksym: instrumented source on z3 bit-vectors), solver-decided round-trip assertions",
        "For every object type and every size / OFS offset below 2^63 the real header encoder and decoders are mutual inverses and produce git's canonical length; the offset decoder is total on every varint of <= 4 bytes; bisect_find_sha is exact on every sorted table of <= 5 first-byte-distinguished names. Decided by z3 over all values in those bounds, per path of the real code; pack index v1/v2/v3 writers and readers round-trip every table of 1-2 entries with symbolic 63-bit offsets and CRCs (first name bytes forked over fan-out boundary values, the index checksum an uninterpreted hash term), covering the inline, top-bit and 64-bit-table cases around 2^31; delta chains of 2-3 deltas with every hop symbolically OFS or REF (REF deltas optionally stored before their base) resolve to the chain's content by random access, by iteration and in check() through the real Pack/PackData readers on real files. Nothing is claimed outside these bounds (zlib payloads run concretely; packs above a few objects are outside).",
        "Trusted: z3, the ksym proxies/models (translator-validated against native CPython on pinned vectors every run), CPython. Python ints are 128-bit bit-vectors with discharged width obligations.",
    ),
    "C03": (
        "bounded symbolic execution of the real delta decoder/encoder (ksym), solver-decided containment, length and round-trip assertions",
        "Every byte string of up to 6 bytes (8 thorough) offered as a delta to the real pure-Python apply_delta against symbolic bases either raises ApplyDeltaError or returns chunks of exactly the declared length that are slices of base/delta (provenance on the symbolic terms); size varints of up to 11 bytes stay inside the error family; _delta_encode_size and _encode_copy_operation decode (git reference decoder) to their arguments for all n<2^63, start<2^32, 1<=len<=0xFFFF; apply(create(b,t),b)==t for every valid 2-opcode diff script over small symbolic buffers. The Rust decoder/encoder and >64KiB copy splits are outside this check so far.",
        "Trusted: z3, ksym proxies/models, CPython; difflib.SequenceMatcher replaced by an arbitrary opcode list satisfying its documented contract.",
    ),
    "C14": (
        "bounded symbolic exploration over real repositories (ksym): history shape, staleness, grafts/shallow boundaries, ref states and operations are solver-forked; the EWAH word encoder runs on symbolic 64-bit words",
        "Commit-graph: for every history of 4 commits (all parent sets incl. octopus merges), with the file written by dulwich fresh or stale (history continued afterwards) and with a graft or shallow boundary on any commit, ParentsProvider.get_parents, generation numbers, find_merge_base and can_fast_forward give the same answers as with the commit-graph disabled. EWAH: _encode_ewah_words on every list of 1-4 symbolic 64-bit words decodes (independent reference decoder) to the same words; EWAHBitmap encode/decode round-trips every subset of word-boundary bits. Packed refs: every conditional set/create/delete/read gives the same result and refs with and without pack_refs(all) before it, from every loose/packed/loose-over-packed state. Stale multi-pack-index after repack/gc: decided in C10c. One genuine defect was repaired (fedcf94; the stale-midx one under C10). Not covered: pack bitmaps' reachability answers, acceleration files written by C git, pack-index version differences (C02).",
        "Trusted: z3, ksym, the written-down EWAH word layout.",
    ),
    "C15": (
        "symbolic execution of the pure-Python twin (ksym) to derive one witness per feasible path within the bound; each witness is executed natively on both twins, the Rust extension being rebuilt from /repo's crates/ on every run",
        "For apply_delta (all deltas of 0..5 bytes over two base lengths, and size headers of up to 11 bytes), parse_tree (0..4 symbolic bytes + well-formed rest, strict on/off; 5-6 thorough), sorted_tree_items (pairs of names of 1-2 bytes, any 16-bit modes, both orders), bisect_find_sha (tables of 1..4 names, all ranges), _is_tree (any 32-bit mode/None), _merge_entries (trees of 1-2 symbolic names) and _count_blocks (blobs from 7 line kinds incl. lone CR, 4 chunkings): on one solver-derived witness for every feasible path of the Python twin, both implementations return the same value or both fail, the Rust side never panics, and for create_delta all four encoder/decoder pairings reproduce the target. This level is weaker than the other checks: it is exhaustive over the Python twin's paths, not over the Rust twin's own case splits (no Rust symbolic engine is installed; a MIR front-end was probed for two leaf functions only, see DESIGN.md). Four genuine defects found by this check were repaired (Rust panic on long size headers, truncated-insert divergence, up-front allocation, mode-parsing divergence).",
        "Trusted: z3, ksym, cargo/rustc producing the extension from the current sources; equality is judged on observable results (value or exception family; any non-Exception such as PanicException counts as a crash).",
    ),
    "C16": (
        "bounded symbolic execution of the real check_ref_format (ksym) against a reference model of git check-ref-format, one solver query per path",
        "check_ref_format agrees with git check-ref-format on every byte string of length 1..6 (7-8 thorough) and on every name built around '.lock', '@{', '..', '//' with up to 4 free bytes (names up to 9 bytes). The reference model is validated against the installed git binary (tools/validate_git_models.py). Backend contract: one operation of every kind (conditional/unconditional set, create, delete, symbolic ref, pack_refs) with every argument combination, from every state over {HEAD, refs/heads/a, refs/heads/a/b, refs/tags/t} in which refs are absent/loose/packed/loose-over-packed/symbolic, on the real DiskRefsContainer in a real directory (and DictRefsContainer on direct refs), leaves exactly the result, refs, symrefs the map model predicts, also for a re-opened container, and no lock file; the post-state is again a model state, so by induction sequences of any length over this state space are covered. Three genuine defects found by this check were repaired (fix: d4f5845, af3e34d, a38d673). Reftable/namespaced backends and peeled tags are not covered.",
        "Trusted: z3, ksym, the reference model of git's rules (validated against git 2.39.5 on 3000 random names).",
    ),
    "C18": (
        "bounded symbolic exploration of checkout/stage/status on real work trees (ksym): tree contents, entry kinds, edit sequences and targets are solver-forked; oracle = directory scan and reference three-way comparison",
        "For every tree over {f, d/g, a non-UTF-8 name, d/h} with entries absent / file / executable / symlink / empty / longer file: reset --hard materialises exactly the tree (contents, symlink targets, executable bits), status is clean, and staging everything reproduces the tree id; for every pair of trees over three of those paths a switch leaves exactly the second tree with clean status and matching index (mode-only, type, add/remove changes); after one or two edits on a target path from {modify same/other size, chmod, delete, add untracked, replace by symlink, stage, unstage, rm --cached} (each with a distinct timestamp) status' staged/unstaged/untracked sets equal the reference comparison of HEAD, index and a directory scan. Two genuine defects were repaired (889f888 symlinks reported untracked; da149e3 executable-bit-only changes not reported). File<->directory replacements, large files, line-ending conversion and agreement with the git binary are not covered.",
        "Trusted: z3 (forking), ksym, the kernel file system on /dev/shm; edits are given distinct timestamps (no racy-git ambiguity).",
    ),
    "C19": (
        "bounded symbolic execution of the real pkt-line/side-band code (ksym) with symbolic stream contents, cut positions and recv sizes",
        "All 2^32 length prefixes decided in one run; PktLineParser and Protocol.read_pkt_line agree with an independent reference parser on every byte string of up to 7 bytes (9 thorough) and under every pair of cut positions; ReceivableProtocol.read/recv deliver the stream in order for every symbolic recv-size schedule over 3 calls; BufferedPktLineWriter output equals the concatenated frames around the buffer boundary; capability/ref/cmd lines and side-band demultiplexing round-trip. Frame-size limits: for payload lengths forked over the boundary values around 65516/65520 (pkt_line, write_pkt_line, write_sideband, BufferedPktLineWriter with its default buffer) a frame is either emitted with a 4-digit prefix and at most 65520 bytes or refused, and the reader accepts exactly the frames the writer may emit. One genuine defect was repaired (10a55e9). Arbitrary symbolic lengths between the boundary values are not covered (lengths are concrete per path).",
        "Trusted: z3, ksym, CPython. Protocol tokens are assumed printable non-blank bytes.",
    ),
    "C20": (
        "bounded symbolic execution of the real config reader/writer (ksym) against each other and against a reference model of git's parse_value/write_pair",
        "For every NUL-free value of up to 4 bytes (5 thorough): dulwich reads back what it writes; git's reader (reference model) reads the same value from what dulwich writes; dulwich reads what git's writer (reference model) produces; subsection names of up to 3 bytes survive escaping and the section-header parser; a ConfigFile with a single- and a multi-valued key survives write_to_file/from_file with order kept; every sequence of 3 (4 thorough) set/add/delete/section-removal steps leaves a file that reads back to the in-memory state; name rules equal git's. Reference models validated against the installed git binary. Three genuine defects found by this check were repaired (fix: commits 8f76b79, f15a11c, 8bfa6ad).",
        "Trusted: z3, ksym, the git reference models (validated against git 2.39.5).",
    ),
    "C12": (
        "bounded symbolic exploration of the real tree build/flatten/diff/patch code (ksym): listings are solver-forked; the merge kernel runs on fully symbolic entry names",
        "For every listing over {a, a.b, a/b, a-, a0, a/b/c, b} with file/executable/gitlink (and symlink) entries: iter_tree_contents(commit_tree(L)) = L, every tree object stores its entries in git's canonical order, tree_lookup_path agrees, conflicting listings are not silently accepted with loss; for every pair of conflict-free listings over {a, a/b, a.b, d/x} and all 8 flag combinations tree_changes(A,B) applied to flatten(A) gives flatten(B) with each path mentioned once, and with path filters a, a/b, d exactly the differing paths at or below the filter are reported; commit_tree_changes(A, changes) equals commit_tree(changed listing) (same id) for every tree over 5 paths and every set/delete change list incl. several new sibling directories; _merge_entries on trees with fully symbolic names returns the strictly increasing merge with matching entries paired (decided by z3 per path). One genuine defect was repaired (15cf714). Rename detection and git diff-tree agreement beyond the reference semantics are not covered.",
        "Trusted: z3, ksym (incl. the posixpath.join model), MemoryObjectStore as the object container.",
    ),
    "C13": (
        "bounded symbolic execution of the real graph/walk code (ksym): DAG shapes forked by the solver, commit timestamps symbolic integers, oracle = graph-theoretic reference",
        "For every DAG on up to 4 commits (5 thorough) and every pair of query commits, with commit timestamps as symbolic integers in [-2^40,2^40] (the code only compares/negates them, so all orderings incl. ties, backwards and negative clocks are covered): _find_lcas/find_merge_base return exactly the maximal common ancestors, can_fast_forward(a,b) <=> a is an ancestor of b, independent/find_octopus_base (thorough) are exact; Walker yields exactly the reachable set once each in date and topo order (never a parent before its child), and reachable(include)-reachable(exclude) under monotone clocks; with since/until bounds exactly the reachable commits inside the window are yielded. Three genuine defects found by this check were repaired (fix: commits 77392fb, 0225633, 3a70501).",
        "Trusted: z3, ksym, CPython. Commits are real Commit objects with fixed ids in a dict-backed store (no serialisation); heapq runs natively on the proxies' comparison protocol.",
    ),
    "C04": (
        "bounded symbolic execution of the untrusted-input decoders (ksym, symbolic bytes) and solver-forked damage/fault positions over real pack ingestion on a real store",
        "Decoders: parse_tree on every text of up to 5 bytes (strict/lenient), the packed-refs line splitter on short lines, read_index_header on all 2^96 headers and EWAHBitmap._decode with symbolic header/run-length fields terminate with their error family or bounded, in-range results (together with the pack header/offset/delta decoders decided under C02/C03 and the pkt-line parser under C19). Ingestion: a valid small pack with one symbolic damage (byte XOR 01/10/80/FF at any offset, truncation at any offset, appended tail) through add_pack()+commit and add_thin_pack on a real bare repository is either refused without a trace (visible objects, installed pack files, re-opened store unchanged) or every visible object hashes to its name; checksum-valid packs with an unparsable commit/tag/tree are refused without a trace; with EIO injected into any of the first 40 file-system calls the store shows all of the pack's objects or none; lookups in an installed pack damaged afterwards (one byte of the object area) fail with an ordinary error or return an object hashing to the requested name. One genuine defect was repaired. Damage that would have to get past zlib/SHA-1 undetected, decompression bombs and MemoryObjectStore are outside (the solver cannot invert those functions; an uninterpreted model would make the claim vacuous).",
        "Trusted: z3, ksym, zlib and hashlib as executed concretely by the real code, the kernel file system on /dev/shm.",
    ),
    "C05": (
        "bounded symbolic exploration of the object-selection core and the in-process fetch path (ksym): history shape, tag targets, gitlinks, haves and wants are solver-forked variables; oracle = reference closure",
        "For every history of 3 commits (all parent sets; two trees sharing a subtree, optionally with a gitlink whose target is itself a commit of the history), tag and tag-of-tag on any commit, every haves subset (receiver holds its closure) and every non-empty wants subset: the real MissingObjectFinder sends each object once, everything in closure(wants) is sent or already present, and nothing outside closure(wants) is sent. LocalGitClient.fetch between two real repositories (source loose or packed, branch anywhere, optional tag ref, receiver holding any complete sub-history): the receiver afterwards holds the complete closure of the fetched refs byte-identically and keeps what it had. Network transports, C git peers, capability negotiation, depth-limited fetches and the server-side want validation are outside this check (process/socket I/O is not reachable by this technique; the server's ack logic was not harnessed).",
        "Trusted: z3 (forking), ksym, zlib/sha as executed concretely by the real code.",
    ),
    "C06": (
        "bounded symbolic exploration of the real receive-pack handler (ksym): server state, command list and capabilities are solver-forked variables; real pkt-line stream and pack; report decoded by the client's parser",
        "For every server state (two refs each absent/A/B), every list of 1-2 commands (old in {0,A,B}, new in {0,A,B, an object sent in the pack, an object nobody has}) and capability sets with/without atomic and side-band-64k, the real ReceivePackHandler.handle() on a bare disk repository over an in-memory pkt-line stream: a ref is reported ok exactly when it now holds the requested value and its previous value was the one the client named; stale commands leave the ref untouched and are reported ng; refs not named are untouched; every ref names a present object; atomic pushes report and apply all or nothing. Two genuine defects found by this check were repaired (ba16574, d306ccc). Racing pushers are covered at the compare-and-swap level by C08; hooks and the local push path are not covered.",
        "Trusted: z3 (forking), ksym, dulwich's own ReportStatusParser/PktLineParser as decoders of the report (C19 checks them).",
    ),
    "C07": (
        "bounded symbolic exploration of the real _GitFile under a rely/guarantee environment (ksym): positions and kinds of interfering actions and of an injected fault are solver-forked variables over a real directory",
        "One actor runs open-for-write/write/(close|abort|interrupted with-block) on the real _GitFile in a real directory while a protocol-abiding other locker may acquire/commit/abort before up to 2 of the actor's system calls and one system call may fail with EIO, all at symbolic positions: the actor never renames or removes a lock it does not own, owns the lock after a successful open, leaves complete old or complete new content visible to readers at every point, releases its lock on every ending, and a failed or aborted write leaves the old content. By assume/guarantee induction this gives mutual exclusion for any number of protocol-abiding writers within the bound. Two genuine defects found by this check were repaired (fix: 91eebc4, 8e3e18a). Callers: two actors with warm caches each run one of 7 packed-refs rewriting/abandoning operations (every pair) with <= 2 preemptions at symbolic file-system-call positions: packed-refs is complete and well formed at every scheduling point, refs neither operation names keep their values, no lock is left. Index and config writers under fault injection are covered at the crash level by C09 only.",
        "Trusted: z3 (forking only), ksym, POSIX semantics of O_EXCL/rename/unlink as provided by the kernel on /dev/shm; other writers follow the protocol.",
    ),
    "C08": (
        "bounded symbolic exploration of two-actor schedules over the real refs/commit code (ksym + file-system interposition + greenlets): operation pair, who starts and the preemption positions are solver-forked variables; oracle = linearizability against the map model",
        "Two actors with separate container objects on one real directory each run one of 16 ref operations (conditional/unconditional set, create, delete, pack_refs, reads) on the same ref from a loose, packed or loose-over-packed start, interleaved at file-system-call granularity (reads included) with up to 1 preemption (quick) / 2 preemptions (thorough) at symbolic positions: results and final refs equal one of the two sequential orders on the map model; an actor that hits a lock or an error has had no effect; no lock file is left. Two actors committing to one branch through the work-tree API under the same schedules: every commit reported successful is in the final history. Three genuine defects found by this check were repaired (3f9f559, da7c0b9, e5bb3a6); one is recorded as a known finding (pack_refs racing a delete).",
        "Trusted: z3 (forking), ksym, greenlet scheduling at interposed calls, POSIX semantics of the kernel on /dev/shm; schedule indices are reproducible because PYTHONHASHSEED is fixed.",
    ),
    "C09": (
        "bounded symbolic exploration of crash points over the real repository code (ksym + file-system interposition): crash index and per-file data-loss bits are solver-forked variables; the image is checked by dulwich's own reader",
        "For 13 repository-changing operations (loose object, conditional ref update/create/delete, pack_refs, symbolic ref, index write, config write, commit through the work-tree API, add_objects as a pack, pack_loose_objects, repack, gc with pruning) from a loose and a packed starting repository, and a crash immediately before any of the first 60 file-system calls at a symbolic index: the directory image reopens, every ref holds its old or new value and names a present object that re-hashes to its name, every previously reachable object is byte-identical, index and config parse. Same under the power-loss model with core.fsyncObjectFiles on, where each file written by the operation keeps only its last-fsynced content (symbolic per file). One genuine defect found by this check was repaired (fix: b3ae6a7).",
        "Trusted: z3 (forking), ksym, the kernel's file-system semantics on /dev/shm; the image is a recursive copy taken at the crash instant; durability model = content at last fsync of the file (directory-entry durability not modelled).",
    ),
    "C10": (
        "bounded symbolic exploration of gc/repack over real repositories (ksym): object-graph shape, refs, storage layout and stale acceleration files are solver-forked; mtimes, clock and grace period are symbolic integers decided by the solver",
        "find_reachable_objects/find_unreachable_objects equal the reference closure for every graph of 2-3 commits (all parent sets, shared subtree, tag and tag-of-tag) and every ref configuration (branch anywhere/absent, tag ref, HEAD detached/attached/unborn) on a real bare repository; prune_unreachable_objects with symbolic integer mtimes, clock and grace period deletes an object only if it is unreachable and at least as old as the grace period, and keeps only younger ones (every ordering and boundary equality decided by z3); pack_loose_objects, repack and garbage_collect (no grace / default / no prune) leave every reachable object byte-identical for every loose/packed/both layout, with and without a multi-pack-index written beforehand, for the running process and for a re-opened repository. One genuine defect was repaired (stale multi-pack-index). Concurrent readers during a repack and alternates are not covered.",
        "Trusted: z3, ksym, the kernel file system; time.time()/get_object_mtime() replaced by symbolic integers.",
    ),
    "C11": (
        "bounded symbolic execution of the real index (de)serialisation kernels (ksym) against each other and against reference models of git's varint.c and on-disk entry layout",
        "For every value below 2^63 the v4 varint round-trips and is byte-identical to git's varint.c; path compression round-trips (memory and stream decoders) for every pair of paths of up to 3 bytes and for 127..300-byte previous paths; write_cache_entry->read_cache_entry returns every field for versions 2,3,4 with all stat fields, stage/assume-valid and skip-worktree/intent-to-add bits symbolic, names of 1..9 symbolic bytes (all padding classes) and of 0xFFE..0x1001 bytes, with git's layout (saturating 12-bit length, 1..8 NUL padding); index_entry_from_stat->write never fails for any 64-bit stat value and stores it modulo 2^32. the SHA trailer: every single-byte damage (4 XOR masks at a symbolic offset) or truncation of a written index is rejected by the reader or yields the same entries. Four genuine defects found by this check were repaired. Ordering of entries across a whole index and extensions are not covered by this check.",
        "Trusted: z3, ksym (struct/BytesIO/binascii models, translator-validated), reference models of git's formats (the v4 varint additionally exercised against the git binary by dulwich's own compat tests).",
    ),
    "C17": (
        "bounded symbolic execution of the real path validators and leading-directory check (ksym) against independent file-system-equivalence predicates and a symbolic lstat table",
        "For every element of up to 5 (default) / 6 (NTFS; 7 thorough) bytes: an accepted element is not a spelling of .git, git~1, '.', '..' or empty under case folding, trailing dots/blanks, ':stream' suffixes and backslash segments, and the default validator refuses nothing else; validate_path accepts no path of up to 6 bytes with a dangerous component or a leading '/'; verify_leading_dirs, for every symbolic state (absent/dir/symlink/file) of up to 3 leading components and every admissible safe_prefix cache, returns normally only if no existing leading component is a symlink and keeps the cache invariant. Composition on a real file system: every sequence of 3 steps, each a tree from an adversarial pool of 10 (symlinks to ../outside, to an absolute path, to a sibling directory whose name extends the work tree's; same-named directories; .GIT, '.git .', git~1, '..' and absolute entry names) applied by reset --hard, reset --mixed or as a patch, creates/changes/deletes nothing outside the work tree or in a sibling directory and writes no tree content into .git. The HFS+ validator and real NTFS/HFS+ file systems are not covered.",
        "Trusted: z3, ksym, the written-down NTFS/case-insensitive equivalences (from git's is_ntfs_dotgit/verify_dotfile); os.lstat is replaced by a symbolic table.",
    ),
}

NOT_YET = "check not built yet in this round (planned in DESIGN.md section 4); no claim is made"


def main():
    props = [json.loads(l) for l in open(os.path.join(HERE, "properties.jsonl"))]
    checks = []
    na = []
    for p in props:
        pid = p["id"]
        if pid in CLAIMED:
            tech, text, note = CLAIMED[pid]
            checks.append({
                "property_id": pid,
                "quick_cmd": f"./check {pid} --tier quick",
                "thorough_cmd": f"./check {pid} --tier thorough",
                "evidence_file": f"/verif/evidence/{pid}.json",
                "replay_cmd_template": f"./check {pid} --replay {{path}}",
                "engine": "vf",
                "level_claimed": {"category": "other", "text": text, "design_ref": f"DESIGN.md section 4 {pid}"},
                "level_note": note,
                "technique": tech,
            })
        else:
            na.append({"property_id": pid, "reason": NA.get(pid, NOT_YET)})
    man = {
        "version": 1,
        "setup_cmd": "./setup.sh",
        "hooks": {
            "guard": "DULWICH_VERIF",
            "enable": "no source hooks: all instrumentation is applied from /verif at import time (AST rewriting import hook, os/open interposition)",
            "baseline_off_cmd": "cd /repo && /venv/bin/python -m pytest -ra -q -p no:cacheprovider --timeout=900 --continue-on-collection-errors",
            "source_commits": [],
            "add_only": True,
        },
        "engines": [
            {"name": "E2-ksym", "path": "vf/ksym", "serves_properties": sorted(CLAIMED),
             "kind_free_text": "own symbolic executor: real dulwich source instrumented at import, ints as z3 bit-vectors with width obligations, decision-prefix path forking, native replay of counterexamples"},
            {"name": "E1-crosshair", "path": "vf/xh.py", "serves_properties": [],
             "kind_free_text": "CrossHair 0.0.110 symbolic execution of harnesses that call the real classes"},
        ],
        "checks": checks,
        "not_applicable": na,
        "notes": "exit 0 = every obligation discharged within the stated bounds; 1 = natively reproduced counterexample (VIOLATION line); 2 = inconclusive (unsupported construct, solver unknown, unwinding/width obligation failed, non-reproducing counterexample)",
    }
    with open(os.path.join(HERE, "MANIFEST.json"), "w") as f:
        json.dump(man, f, indent=1)
    print("claimed:", [c["property_id"] for c in checks], "n/a:", len(na))


NA = {}

if __name__ == "__main__":
    main()
