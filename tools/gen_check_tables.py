#!/usr/bin/env python3
"""Regenerate the per-check table in DESIGN.md (between the BEGIN/END markers) from the KCheck metadata of
vf/props/*.py and the seeded-change verdicts in seeded/*/meta.json.   Run: .venv/bin/python tools/gen_check_tables.py"""
import glob
import importlib
import json
import os
import sys

HERE = os.path.dirname(os.path.dirname(os.path.abspath(__file__)))
sys.path.insert(0, HERE)
os.environ.setdefault("PYTHONHASHSEED", "0")
from vf.ksym import rewrite  # noqa: E402

rewrite.install()
out = []
out.append("| check | tiers | partitions | functions encoded | bound (all values inside are decided) | outside the claim |")
out.append("|---|---|---|---|---|---|")
for p in [f"C{n:02d}" for n in range(1, 21)]:
    mod = importlib.import_module(f"vf.props.{p}")
    seen = {}
    for tier in ("quick", "thorough"):
        for c in mod.checks(tier):
            if tier in c.tiers:
                seen.setdefault(c.name, (c, []))[1].append(tier)
    for name, (c, tiers) in seen.items():
        esc = lambda s: str(s).replace("|", "\\|").replace("\n", " ")
        out.append(f"| {name} | {'+'.join(t[0] for t in tiers)} | {len(c.parts)} | {esc(', '.join(c.encoded))} | {esc(c.bounds)} | {esc(c.outside)} |")
checks_md = "\n".join(out)

rows = ["| seeded change | property | what it changes | caught by (quick tier) | verdict |", "|---|---|---|---|---|"]
for mp in sorted(glob.glob(os.path.join(HERE, "seeded", "C*", "meta.json"))):
    m = json.load(open(mp))
    r = m.get("check_results", {}).get("quick", {})
    fc = r.get("first_counterexample", "")
    chk = fc.split("counterexample ")[-1].split(":")[0] if fc else ""
    what = m.get("summary") or m.get("needs_to_manifest", "")
    what = what.replace("\n", " ").replace("|", "\\|")
    what = what.split(" ## ")[0].lstrip("# ").strip()[:200]
    rows.append(f"| {m['id']}{' (adapted)' if m.get('adapted') else ''} | {m['property']} | {what} | {chk} | {r.get('verdict', 'not run')} |")
seeded_md = "\n".join(rows)

path = os.path.join(HERE, "DESIGN.md")
txt = open(path).read()
for tag, body in (("checks", checks_md), ("seeded", seeded_md)):
    b, e = f"<!-- BEGIN {tag} -->", f"<!-- END {tag} -->"
    if b in txt:
        pre, rest = txt.split(b, 1)
        _, post = rest.split(e, 1)
        txt = pre + b + "\n" + body + "\n" + e + post
    else:
        print("marker missing:", tag)
open(path, "w").write(txt)
print("ok", len(out) - 2, "checks;", len(rows) - 2, "seeded")
