#!/bin/bash
# run_seeded.sh <seeded-id> [tier] : apply the seeded change to /repo, run the property's check, undo, record result
S=$1; TIER=${2:-quick}
D=/verif/seeded/$S
P=$(python3 -c "import json;print(json.load(open('$D/meta.json'))['property'])")
R=${VERIF_REPO:-/repo}
cd $R
git diff --quiet || { echo "$R not clean"; exit 2; }
git apply $D/patch.diff || { echo "$S: patch does not apply"; exit 2; }
cd /verif
T0=$(date +%s)
./check $P --tier $TIER > /tmp/seeded_$S.log 2>&1
RC=$?
T1=$(date +%s)
git -C $R checkout -- .
NV=$(grep -c "^VIOLATION" /tmp/seeded_$S.log)
FIRST=$(grep -m1 "counterexample" /tmp/seeded_$S.log | cut -c1-300)
python3 - "$D" "$RC" "$NV" "$TIER" "$((T1-T0))" "$FIRST" <<'PY'
import json,sys
D,rc,nv,tier,secs,first=sys.argv[1:]
p=f"{D}/meta.json"; m=json.load(open(p))
m.setdefault("check_results",{})[tier]={"exit":int(rc),"violation_lines":int(nv),"wall_s":int(secs),"first_counterexample":first,
   "verdict":"DETECTED" if rc=="1" and int(nv)>0 else ("INCONCLUSIVE" if rc=="2" else "MISSED")}
json.dump(m,open(p,"w"),indent=1)
print(m["id"], m["check_results"][tier]["verdict"], "rc",rc,"viol",nv,secs,"s", first[:160])
PY
