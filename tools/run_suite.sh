#!/bin/bash
# run_suite.sh <worktree>: run the pinned suite (BASELINE.json cmd) in <worktree> and compare with stable_pass.
WT=$1
J=$(mktemp /tmp/junit.XXXXXX.xml)
cd $WT && /venv/bin/python -m pytest -q -p no:cacheprovider --timeout=900 --continue-on-collection-errors --junitxml=$J >/dev/null 2>&1
/venv/bin/python - "$J" <<'PY'
import json,sys,xml.etree.ElementTree as ET
b=set(json.load(open('/root/.vp/BASELINE.json'))['stable_pass'])
ok=set()
for tc in ET.parse(sys.argv[1]).getroot().iter('testcase'):
    if not any(c.tag in ('failure','error','skipped') for c in tc):
        ok.add(f"{tc.get('classname')}::{tc.get('name')}")
lost=sorted(b-ok)
print("baseline tests: %d; passing now: %d; baseline tests no longer passing: %d"%(len(b),len(b&ok),len(lost)))
for l in lost[:10]: print("  LOST",l)
sys.exit(1 if lost else 0)
PY
RC=$?
rm -f $J
exit $RC
